"""Shared plumbing for properties decided on whole-system worlds."""
from .engine import Outcome
from .rng import digest
from .world import event_times, last_event_time

REAL_VS_STUB = ("real: Simulator, EventQueue, events, ChargingNetwork/StochasticNetwork, Current, EVSE classes, EV, "
                "Battery models, Interface, SessionInfo/InfrastructureInfo, sorted algorithms + pre/post-processing, "
                "UncontrolledCharging, BaseSimObj JSON; ours: the scheduler party (scripted answers / fault plan / "
                "stub estimator), numpy.random.normal and random.choice tapes, end-of-period tap; not run: GaussianMixture")


def history_signature(tr, extra=()):
    """hash of the per-period tuple <multiset of event kinds, invoked?, fault kind, #connected, #with-rate>."""
    ev = event_times(tr.sc)
    calls = {}
    for c in tr.calls:
        calls.setdefault(c["t"], []).append(c.get("fault"))
    rows = []
    for p in tr.periods:
        t = p["t"]
        kinds = tuple(sorted(k for k, _ in ev.get(t, [])))
        conn = sum(1 for v in p["st"].values() if v[0] is not None)
        act = sum(1 for x in (p["rates"] or []) if x > 0)
        rows.append((kinds, tuple(str(x) for x in calls.get(t, [])), conn, act))
    return digest((rows, tuple(extra)))


from .rng import sub as _sub


def base_outcome(tr, extra_sig=()):
    out = Outcome()
    out.periods = len(tr.periods) if tr.periods else tr.ctx.taps
    out.minutes = out.periods * float(tr.sc["sim"]["period"])
    out.calls = len(tr.calls)
    out.faults = dict(tr.fault_counts)
    out.digest = tr.digest
    out.sig = history_signature(tr, extra_sig)
    faulty = {c["t"] for c in tr.calls if c.get("fault")}
    out.fault_free_periods = max(0, out.periods - len(faulty))
    out.tr = None
    # reach of the world variants (swarm flags that actually took effect in this run)
    sc = tr.sc
    sim_, net_, par_ = sc.get("sim", {}), sc.get("network", {}), sc.get("party", {})
    flags = {
        "refill_applied": bool(getattr(tr, "refills", None)),
        "event_subclass": any(s_.get("ev_sub") for s_ in sc.get("sessions", [])) or any(e_.get("sub") for e_ in sc.get("extra_events", [])),
        "evse_subclass": any(s_["evse"].get("sub") for s_ in net_.get("stations", [])),
        "battery_subclass": any(s_["battery"].get("sub") for s_ in sc.get("sessions", [])),
        "interface_subclass": bool(sim_.get("iface_sub")),
        "verbose": bool(sim_.get("verbose")),
        "queue_filled_after_construction": bool(sim_.get("late_fill")),
        "operator_monitor": bool(sc.get("monitor")),
        "fractional_or_odd_period": sim_.get("period") not in (1, 5, 15, 60),
        "aware_start": bool(sim_.get("start_tz")),
        "start_with_seconds": len(sim_.get("start", [])) > 5,
        "zero_or_subthreshold_request": any(s_["energy"] <= 1e-3 for s_ in sc.get("sessions", [])),
        "bidirectional_evse": any(s_["evse"].get("min", 0) < 0 for s_ in net_.get("stations", []) if s_["evse"]["type"] == "EVSE"),
        "odd_station_ids": any(s_["id"] in ("1", "01", "A/1", "a b") for s_ in net_.get("stations", [])),
        "odd_constraint_names": any(not c_["name"].startswith("c") or not c_["name"][1:].isdigit() for c_ in net_.get("constraints", [])),
        "all_zero_constraint_row": any(all(v_ == 0 for v_ in c_["coeffs"].values()) for c_ in net_.get("constraints", [])),
        "positional_network_constructor": bool(net_.get("positional")),
        "positional_algorithm_constructor": par_.get("kind") in ("greedy", "rr") and _sub(sc.get("seed", 0), "algo_call_form").random() < 0.25,
        "numeric_session_ids": any(s_["session_id"] in ("1001", "0007", "7", "007") for s_ in sc.get("sessions", [])),
        "phases_not_three_phase": any(s_["phase"] not in (0, 30, -90, 150) for s_ in net_.get("stations", [])) or
        ({s_["phase"] for s_ in net_.get("stations", [])} >= {0, 180}),
        "dict_subclass_schedule": par_.get("mapping_type", "dict") != "dict" and par_.get("kind") == "scripted",
        "sorted_recompute_not_1": par_.get("kind") in ("greedy", "rr") and par_.get("max_recompute") != 1,
        "user_sort_function": str(par_.get("sort", "")).startswith("user_"),
        "idle_prefix_over_100": bool(sc.get("sessions")) and min(s_["arrival"] for s_ in sc["sessions"]) >= 100,
        "station_with_over_10_sessions": any(n_ > 10 for n_ in __import__("collections").Counter(s_["station"] for s_ in sc.get("sessions", [])).values()),
    }
    for k_, v_ in flags.items():
        if v_:
            out.probes["world:" + k_] = 1
    if getattr(tr.ctx, "intervention_late", False):
        out.probes["intervention_not_at_its_interruption"] = 1
        out.drop_verdict = "operator intervention could not be made at its interruption point (the scheduler was not asked in that period)"
    return out


def completion(tr, out, tag_prefix, required=True):
    """Classify an exception that ended the run. Returns True if the run completed normally."""
    if tr.exc is None:
        return True
    if tr.exc_kind == "expected":
        return False
    if tr.exc_kind == "stepcap":
        out.add(tag_prefix + "/nonterminating", str(tr.exc))
        return False
    msg = "%s: %s" % (type(tr.exc).__name__, str(tr.exc)[:200])
    if required:
        out.add(tag_prefix + "/exception:" + type(tr.exc).__name__, msg + " at iteration %d" % tr.sim.iteration)
    else:
        out.aborted = True
        out.abort_reason = type(tr.exc).__name__
    return False


def close(a, b, n=1, rel=1e-9):
    return abs(a - b) <= rel * max(1.0, abs(a), abs(b)) + n * 1e-13
