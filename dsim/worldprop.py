"""Shared plumbing for properties decided on whole-system worlds."""
from .engine import Outcome
from .rng import digest
from .world import event_times, last_event_time

REAL_VS_STUB = ("real: Simulator, EventQueue, events, ChargingNetwork/StochasticNetwork, Current, EVSE classes, EV, "
                "Battery models, Interface, SessionInfo/InfrastructureInfo, sorted algorithms + pre/post-processing, "
                "UncontrolledCharging, BaseSimObj JSON; ours: the scheduler party (scripted answers / fault plan / "
                "stub estimator), numpy.random.normal and random.choice tapes, end-of-period tap; not run: GaussianMixture")


def history_signature(tr, extra=()):
    """hash of the per-period tuple <multiset of event kinds, invoked?, fault kind, #connected, #with-rate>."""
    ev = event_times(tr.sc)
    calls = {}
    for c in tr.calls:
        calls.setdefault(c["t"], []).append(c.get("fault"))
    rows = []
    for p in tr.periods:
        t = p["t"]
        kinds = tuple(sorted(k for k, _ in ev.get(t, [])))
        conn = sum(1 for v in p["st"].values() if v[0] is not None)
        act = sum(1 for x in (p["rates"] or []) if x > 0)
        rows.append((kinds, tuple(str(x) for x in calls.get(t, [])), conn, act))
    return digest((rows, tuple(extra)))


def base_outcome(tr, extra_sig=()):
    out = Outcome()
    out.periods = len(tr.periods) if tr.periods else tr.ctx.taps
    out.minutes = out.periods * float(tr.sc["sim"]["period"])
    out.calls = len(tr.calls)
    out.faults = dict(tr.fault_counts)
    out.digest = tr.digest
    out.sig = history_signature(tr, extra_sig)
    faulty = {c["t"] for c in tr.calls if c.get("fault")}
    out.fault_free_periods = max(0, out.periods - len(faulty))
    out.tr = None
    return out


def completion(tr, out, tag_prefix, required=True):
    """Classify an exception that ended the run. Returns True if the run completed normally."""
    if tr.exc is None:
        return True
    if tr.exc_kind == "expected":
        return False
    if tr.exc_kind == "stepcap":
        out.add(tag_prefix + "/nonterminating", str(tr.exc))
        return False
    msg = "%s: %s" % (type(tr.exc).__name__, str(tr.exc)[:200])
    if required:
        out.add(tag_prefix + "/exception:" + type(tr.exc).__name__, msg + " at iteration %d" % tr.sim.iteration)
    else:
        out.aborted = True
        out.abort_reason = type(tr.exc).__name__
    return False


def close(a, b, n=1, rel=1e-9):
    return abs(a - b) <= rel * max(1.0, abs(a), abs(b)) + n * 1e-13
