"""Seeded search over simulated runs: dispatch, determinism sampling, minimisation, replay files, evidence."""
import concurrent.futures as cf
import faulthandler
import importlib
import json
import multiprocessing as mp
import os
import sys
import time
import traceback

from .rng import run_seed

VERIF = os.path.dirname(os.path.dirname(os.path.abspath(__file__)))
EXIT_OK, EXIT_VIOLATION, EXIT_HARNESS = 0, 1, 2


class Outcome:
    """Result of checking one scenario."""

    def __init__(self):
        self.viol = []          # list of (tag, detail)
        self.sig = ""           # history signature (distinctness measure)
        self.nontrivial = False
        self.probes = {}
        self.faults = {}
        self.periods = 0
        self.minutes = 0.0
        self.calls = 0
        self.aborted = False
        self.inconclusive = 0
        self.digest = ""
        self.fault_free_periods = 0

    def add(self, tag, detail=""):
        self.viol.append((tag, str(detail)[:600]))

    def probe(self, name, n=1):
        if n:
            self.probes[name] = self.probes.get(name, 0) + n

    def tags(self):
        return [t for t, _ in self.viol]


def load_prop(pid):
    return importlib.import_module("dsim.props.%s" % pid.lower())


def safe_check(mod, pid, sc):
    """mod.check(sc); an exception raised inside the repository's code on a call the check makes unconditionally on valid
    input (expected rejections are handled inside the checks) is behaviour of the SUT and is reported as a violation;
    anything else propagates (harness error)."""
    try:
        out = mod.check(sc)
        for _ in range(int(sc.get("_repeat", 1)) - 1):
            # the same scenario executed again in the same process: a difference means state leaked inside the library
            out = mod.check(json.loads(json.dumps({k: v for k, v in sc.items() if k != "_repeat"})))
        if getattr(out, "drop_verdict", None) and not getattr(mod, "JUDGED_WITHOUT_INTERVENTIONS", False):
            # the world did not unfold as its own fault plan assumes (see worldprop.base_outcome): nothing that depends on the
            # plan is judged in this run; it is counted as aborted (and more than 20 % aborted runs is exit 2, never 0)
            out.viol = []
            out.aborted = True
            out.abort_reason = "intervention_late"
        return out
    except Exception as exc:
        from .driver import classify_exception
        if classify_exception(exc) != "sut":
            raise
        out = Outcome()
        out.add("%s/unexpected_exception:%s" % (pid, type(exc).__name__),
                "%s: %s | %s" % (type(exc).__name__, str(exc)[:200], traceback.format_exc().strip().splitlines()[-3].strip()[:160]))
        out.digest = "exception"
        return out


def _merge(d, s):
    for k, v in s.items():
        d[k] = d.get(k, 0) + v


def _worker(args):
    pid, tier, seed, lo, hi, deadline, det_every = args
    faulthandler.dump_traceback_later(max(30.0, deadline - time.time() + 120), exit=True)
    mod = load_prop(pid)
    agg = dict(n=0, nontrivial=0, sigs=set(), probes={}, faults={}, periods=0, minutes=0.0, calls=0, aborted=0,
               inconclusive=0, viols=[], ffp=0, det_checked=0, det_mismatch=[], samples=[], harness=None,
               abort_reasons={}, viol_idx=[])
    for idx in range(lo, hi):
        if time.time() > deadline:
            break
        rs = run_seed(seed, pid, idx)
        try:
            sc = mod.gen(rs, tier)
            sc["property"] = pid
            sc["verif_seed"] = seed
            sc["run"] = idx
            out = safe_check(mod, pid, sc)
            if det_every and idx % det_every == 0 and getattr(mod, "DETERMINISTIC", True):
                out2 = safe_check(mod, pid, json.loads(json.dumps(sc)))
                agg["det_checked"] += 1
                if out2.digest != out.digest or out2.tags() != out.tags():
                    if out2.viol and not out.viol:
                        # the harness is deterministic on the unchanged tree (selftest/determinism.sh): a scenario that passes
                        # once and fails when executed again in the same process means the library kept state between two
                        # uses. Reported as a violation of this property with a replay that executes the scenario twice.
                        sc = dict(sc, _repeat=2)
                        out = out2
                        out.viol = [(t_, "(second execution of the same scenario in one process) " + d_) for t_, d_ in out2.viol]
                    elif not out.viol:
                        agg["det_mismatch"].append(idx)      # (a run that already violates is reported as such)
        except Exception:
            agg["harness"] = "run %d: %s" % (idx, traceback.format_exc())
            break
        agg["n"] += 1
        if out.nontrivial:
            agg["nontrivial"] += 1
            agg["sigs"].add(out.sig)
        _merge(agg["probes"], out.probes)
        _merge(agg["faults"], out.faults)
        agg["periods"] += out.periods
        agg["ffp"] += out.fault_free_periods
        agg["minutes"] += out.minutes
        agg["calls"] += out.calls
        agg["inconclusive"] += out.inconclusive
        if out.aborted:
            agg["aborted"] += 1
            r = getattr(out, "abort_reason", "?")
            agg["abort_reasons"][r] = agg["abort_reasons"].get(r, 0) + 1
        if out.viol and len(agg["viols"]) < 4:
            agg["viols"].append((idx, sc, out.viol))
        if out.viol and len(agg["viol_idx"]) < 200 and not sc.get("_repeat"):
            agg["viol_idx"].append((idx, out.viol[0][0]))
        if len(agg["samples"]) < 1 and out.nontrivial:
            agg["samples"].append(sc)
    faulthandler.cancel_dump_traceback_later()
    return agg


def shrink(mod, sc, tag, budget_runs=300, budget_s=45.0):
    """Greedy structural minimisation: accept a candidate iff it still reports the same oracle tag."""
    cand_fn = getattr(mod, "candidates", None)
    if cand_fn is None:
        from .shrink import world_candidates as cand_fn
    t0 = time.time()
    runs = 0
    cur = sc
    improved = True
    while improved and runs < budget_runs and time.time() - t0 < budget_s:
        improved = False
        for cand in cand_fn(cur):
            if runs >= budget_runs or time.time() - t0 > budget_s:
                break
            runs += 1
            try:
                out = safe_check(mod, cand.get("property", "?"), json.loads(json.dumps(cand)))
            except Exception:
                continue
            if tag in out.tags():
                cur = cand
                improved = True
                break
    return cur, runs


def _in_child(fn, timeout=180):
    """Run fn() in a forked child of this (so far scenario-free) process and return its result, or None."""
    ctx = mp.get_context("fork")
    a, b = ctx.Pipe(duplex=False)

    def run():
        try:
            b.send(fn())
        except Exception:
            b.send(None)
        finally:
            b.close()
    p = ctx.Process(target=run)
    p.start()
    res = a.recv() if a.poll(timeout) else None
    p.join(5)
    if p.is_alive():
        p.kill()
    return res


def hashseed_outcome(pid, sc):
    """A scenario whose violation is 'the event log depends on the interpreter's string-hash seed': executed once in each of
    two fresh interpreters (PYTHONHASHSEED values in sc['_hashseed_pair']); differing event-log digests are the violation."""
    import subprocess
    import tempfile
    seeds = list(sc["_hashseed_pair"])
    tag = sc.get("_hashseed_tag") or (pid + "/hash_seed_dependence")
    plain = {k: v for k, v in sc.items() if k not in ("violation",)}
    fd, path = tempfile.mkstemp(prefix="dsim-hs-", suffix=".json")
    with os.fdopen(fd, "w") as f:
        json.dump(plain, f, default=str)
    digs = []
    try:
        for hs in seeds:
            # an entry is a hash seed, optionally followed by ":O" (that interpreter runs with -O: asserts stripped, __debug__ False)
            hs_, _, fl_ = str(hs).partition(":")
            env = dict(os.environ, PYTHONHASHSEED=hs_)
            env.pop("PYTHONOPTIMIZE", None)
            env["PYTHONPATH"] = VERIF + os.pathsep + env.get("PYTHONPATH", "")
            p = subprocess.run([sys.executable] + (["-O"] if "O" in fl_ else []) + ["-m", "dsim.engine", pid, "--scenario-digest", path], env=env,
                               capture_output=True, text=True, timeout=600, cwd=VERIF)
            lines = [ln for ln in p.stdout.splitlines() if ln.startswith("DIGEST ")]
            if p.returncode != 0 or not lines:
                raise RuntimeError("fresh interpreter (PYTHONHASHSEED=%s) failed: %s" % (hs, (p.stderr or p.stdout)[-400:]))
            digs.append(lines[-1].split(" ", 2)[1:])
    finally:
        os.unlink(path)
    (d0, t0), (d1, t1) = digs
    if t0 != "-" or t1 != "-":        # an ordinary oracle fired in one of the interpreters: report that instead
        tags = [t for t in (t0 + "," + t1).split(",") if t and t != "-"]
        return ([(tags[0], "reported in a fresh interpreter (PYTHONHASHSEED %s / %s: %s / %s)" % (seeds[0], seeds[1], t0, t1))], d0)
    if d0 != d1 and any(":O" in str(x_) for x_ in seeds):
        return ([(tag, "same scenario, same random tapes: event-log digest %s in an ordinary interpreter and %s under python -O (interpreters %s): "
                       "behaviour depends on assert statements / __debug__" % (d0, d1, seeds))], d0)
    if d0 != d1:
        return ([(tag, "same scenario, same random tapes: event-log digest %s under PYTHONHASHSEED=%s and %s under PYTHONHASHSEED=%s, each in a "
                       "fresh interpreter (something in the run iterates a set / dict keyed by strings whose order is the hash seed's)"
                       % (d0, seeds[0], d1, seeds[1]))], d0)
    return ([], d0)


def optimised_pass(pid, mod, tier, seed, n):
    """The first n run indices once more in a fresh interpreter started with -O (asserts stripped, __debug__ False) and once in an
    ordinary fresh interpreter: an oracle that fires only under -O, or a differing event-log digest, is a violation (users do run
    optimised interpreters; the replay file carries the pair of interpreters)."""
    import subprocess
    rows = {}
    procs = {}
    for flag in ("", "O"):
        env = dict(os.environ, PYTHONHASHSEED="0")
        env.pop("PYTHONOPTIMIZE", None)
        env["PYTHONPATH"] = VERIF + os.pathsep + env.get("PYTHONPATH", "")
        procs[flag] = subprocess.Popen([sys.executable] + (["-O"] if flag else []) + ["-m", "dsim.engine", pid, "--digests", str(n), "--tier", tier, "--workers", "6"],
                                       env=env, stdout=subprocess.PIPE, stderr=subprocess.PIPE, text=True, cwd=VERIF)
    for flag, pr in procs.items():
        try:
            so, se = pr.communicate(timeout=900)
        except subprocess.TimeoutExpired:
            for q in procs.values():
                q.kill()
            raise RuntimeError("fresh interpreter (%s) timed out" % (flag or "ordinary"))
        if pr.returncode != 0:
            raise RuntimeError("fresh interpreter (%s) failed: %s" % (flag or "ordinary", (se or so)[-400:]))
        rows[flag] = {}
        for ln in so.splitlines():
            f = ln.split(" ")
            if len(f) >= 3 and f[0].isdigit():
                rows[flag][int(f[0])] = (f[1], f[3] if len(f) > 3 else "")
    viols = []
    for i in sorted(rows[""]):
        if i not in rows["O"]:
            continue
        (d0, t0), (d1, t1) = rows[""][i], rows["O"][i]
        if (t1 and not t0) or (d0 != d1 and not t0 and not t1):
            sc = mod.gen(run_seed(seed, pid, i), tier)
            sc.update(property=pid, verif_seed=seed, run=i, _hashseed_pair=["0", "0:O"], _hashseed_tag=pid + "/differs_under_python_O")
            tag = t1.split(",")[0] if t1 else pid + "/differs_under_python_O"
            viols.append((i, sc, [(tag, "world %d: %s under python -O; ordinary interpreter: digest %s tags %r, -O: digest %s tags %r" %
                                   (i, "an oracle fires" if t1 else "another event log", d0, t0, d1, t1))]))
            if len(viols) >= 2:
                break
    return {"viols": viols, "probes": {"runs_repeated_under_python_O": len(rows["O"])}}


def isolated_tags(pid, sc):
    """Oracle tags (and details, digest) of one scenario executed in a process that has executed nothing else."""
    if sc.get("_hashseed_pair"):
        return hashseed_outcome(pid, sc)

    def fn():
        out = safe_check(load_prop(pid), pid, json.loads(json.dumps(sc)))
        return (out.viol, out.digest)
    return _in_child(fn)


def match_known(pid, mod, sc, tag, detail):
    path = os.path.join(VERIF, "known_findings.json")
    try:
        kf = json.load(open(path))
    except FileNotFoundError:
        return None
    for f in kf.get("findings", []):
        if f.get("property") != pid or f.get("status") != "known":
            continue
        if f.get("tag") != tag:
            continue
        trig = getattr(mod, "TRIGGERS", {}).get(f.get("trigger"))
        if trig is None or trig(sc, tag, detail):
            return f
    return None


def write_evidence(pid, tier, seed, cov, wall, nviol, assumptions):
    ev = {"property_id": pid, "tier": tier, "seed": seed, "level": "exploration", "coverage": cov,
          "assumptions": assumptions, "wall_s": round(wall, 2), "violations": nviol}
    evdir = os.environ.get("VERIF_EVIDENCE_DIR") or os.path.join(VERIF, "evidence")
    os.makedirs(evdir, exist_ok=True)
    path = os.path.join(evdir, "%s.json" % pid)
    tmp = path + ".tmp"
    with open(tmp, "w") as f:
        json.dump(ev, f, indent=1, default=str)
    os.replace(tmp, path)
    return path


def replay(pid, path):
    mod = load_prop(pid)
    sc = json.load(open(path))
    want = sc.get("violation", {}).get("oracle")
    if sc.get("_hashseed_pair"):
        viol, dig = hashseed_outcome(pid, sc)
        out = Outcome()
        out.viol, out.digest = list(viol), dig
    else:
        out = safe_check(mod, pid, sc)
    print("replay %s: expected oracle=%s got=%s digest=%s" % (path, want, out.tags(), out.digest))
    if out.viol:
        tag, detail = out.viol[0]
        if want in out.tags():
            tag = want
            detail = dict(out.viol)[want]
        if want is None or want in out.tags():
            kf = match_known(pid, mod, sc, tag, detail)
            if kf is not None:
                print("KNOWN-FINDING: property=%s %s" % (pid, kf.get("description", tag)))
                return EXIT_OK
            print("VIOLATION property=%s replay=%s oracle=%s detail=%s" % (pid, path, tag, detail))
            return EXIT_VIOLATION
        print("replay reproduced a different oracle: %s" % out.tags())
        return EXIT_VIOLATION
    print("replay did not reproduce a violation")
    return EXIT_OK


def _digest_chunk(args):
    pid, tier, seed, lo, hi = args
    mod = load_prop(pid)
    rows = []
    for idx in range(lo, hi):
        sc = mod.gen(run_seed(seed, pid, idx), tier)
        sc["property"], sc["verif_seed"], sc["run"] = pid, seed, idx
        out = safe_check(mod, pid, sc)
        rows.append("%d %s %s %s" % (idx, out.digest, out.sig, ",".join(sorted(out.tags()))))
    return rows


def digests(pid, tier, seed, n, workers):
    """Event-log digests of run indices 0..n-1 (used by selftest/determinism.sh across hash seeds / worker counts)."""
    workers = max(1, min(workers, os.cpu_count() or 1))
    step = max(1, (n + workers - 1) // workers)
    jobs = [(pid, tier, seed, lo, min(n, lo + step)) for lo in range(0, n, step)]
    if workers == 1:
        res = [_digest_chunk(j) for j in jobs]
    else:
        with cf.ProcessPoolExecutor(max_workers=workers, mp_context=mp.get_context("fork")) as ex:
            res = list(ex.map(_digest_chunk, jobs, timeout=1800))
    for rows in res:
        for r in rows:
            print(r)
    return EXIT_OK


def main(argv=None):
    import argparse
    ap = argparse.ArgumentParser()
    ap.add_argument("pid")
    ap.add_argument("--tier", default=os.environ.get("VERIF_TIER", "quick"), choices=["quick", "thorough"])
    ap.add_argument("--replay")
    ap.add_argument("--runs", type=int)
    ap.add_argument("--workers", type=int, default=int(os.environ.get("VERIF_WORKERS", "16")))
    ap.add_argument("--no-shrink", action="store_true")
    ap.add_argument("--digests", type=int, help="determinism self-test: print 'idx digest tags' for run indices 0..N-1")
    ap.add_argument("--scenario-digest", help="execute one scenario file and print 'DIGEST <event-log digest> <oracle tags or ->'")
    a = ap.parse_args(argv)
    pid = a.pid.upper()
    seed = int(os.environ.get("VERIF_SEED", "0") or 0)
    if os.environ.get("PYTHONHASHSEED") is None:
        os.environ["PYTHONHASHSEED"] = "0"
        os.environ.setdefault("PYTHONWARNINGS", "ignore")
        os.execv(sys.executable, [sys.executable, "-m", "dsim.engine"] + (argv if argv is not None else sys.argv[1:]))
    if a.digests:
        return digests(pid, a.tier, seed, a.digests, a.workers)
    if a.scenario_digest:
        sc_ = json.load(open(a.scenario_digest))
        sc_.pop("_hashseed_pair", None)
        o_ = safe_check(load_prop(pid), pid, sc_)
        print("DIGEST %s %s" % (o_.digest, ",".join(sorted(o_.tags())) or "-"))
        return EXIT_OK
    if a.replay:
        try:
            return replay(pid, a.replay)
        except Exception:
            print("HARNESS-ERROR property=%s %s" % (pid, traceback.format_exc()))
            return EXIT_HARNESS
    t0 = time.time()
    try:
        mod = load_prop(pid)
    except Exception:
        print("HARNESS-ERROR property=%s cannot load: %s" % (pid, traceback.format_exc()))
        return EXIT_HARNESS
    n_runs = a.runs or mod.RUNS[a.tier]
    budget = float(os.environ.get("VERIF_BUDGET_S", mod.BUDGET[a.tier]))
    deadline = t0 + budget
    workers = max(1, min(a.workers, os.cpu_count() or 1))
    chunk = max(1, min(getattr(mod, "CHUNK", 200), (n_runs + workers * 4 - 1) // (workers * 4)))
    det_every = getattr(mod, "DET_EVERY", 50)
    jobs = [(pid, a.tier, seed, lo, min(n_runs, lo + chunk), deadline, det_every) for lo in range(0, n_runs, chunk)]
    tot = dict(n=0, nontrivial=0, sigs=set(), probes={}, faults={}, periods=0, minutes=0.0, calls=0, aborted=0,
               inconclusive=0, viols=[], ffp=0, det_checked=0, det_mismatch=[], samples=[], abort_reasons={}, viol_idx=[])
    harness = None
    ctx = mp.get_context("fork")
    hard_cap = budget * 2 + 180
    with cf.ProcessPoolExecutor(max_workers=workers, mp_context=ctx) as ex:
        futs = [ex.submit(_worker, j) for j in jobs]
        try:
            for f in cf.as_completed(futs, timeout=hard_cap):
                try:
                    g = f.result()
                except Exception as e:  # worker died
                    harness = "worker died: %r" % (e,)
                    break
                if g["harness"]:
                    harness = g["harness"]
                    break
                for k in ("n", "nontrivial", "periods", "minutes", "calls", "aborted", "inconclusive", "ffp", "det_checked"):
                    tot[k] += g[k]
                tot["sigs"] |= g["sigs"]
                _merge(tot["probes"], g["probes"])
                _merge(tot["faults"], g["faults"])
                _merge(tot["abort_reasons"], g["abort_reasons"])
                tot["viols"].extend(g["viols"])
                tot["viol_idx"].extend(g["viol_idx"])
                tot["det_mismatch"].extend(g["det_mismatch"])
                if len(tot["samples"]) < 3:
                    tot["samples"].extend(g["samples"][: 3 - len(tot["samples"])])
        except cf.TimeoutError:
            harness = "wall-clock cap of %.0fs exceeded" % hard_cap
        if harness:
            for f in futs:
                f.cancel()
    if harness:
        print("HARNESS-ERROR property=%s %s" % (pid, harness))
        return EXIT_HARNESS
    if tot["det_mismatch"] and not tot["viols"]:
        # same scenario, same process, different event log and no oracle fired: either the harness is not deterministic
        # (selftest/determinism.sh says it is, on the unchanged tree) or the library keeps state between uses in a way no
        # oracle of this property sees. Never a pass.
        print("HARNESS-ERROR property=%s non-deterministic runs (same scenario, different digest): %s" % (pid, tot["det_mismatch"][:10]))
        return EXIT_HARNESS
    if tot["n"] == 0:
        print("HARNESS-ERROR property=%s no runs executed" % pid)
        return EXIT_HARNESS
    if hasattr(mod, "post_run"):
        try:
            extra = mod.post_run(a.tier, seed)
        except Exception:
            if not tot["viols"]:
                print("HARNESS-ERROR property=%s post_run: %s" % (pid, traceback.format_exc()))
                return EXIT_HARNESS
            # the main runs already hold violations: those are the result; the failed extra pass is noted, not allowed to hide them
            print("NOTE property=%s post_run did not complete: %s" % (pid, traceback.format_exc().strip().splitlines()[-1][:200]))
            extra = {}
        tot["viols"].extend(extra.get("viols", []))
        _merge(tot["probes"], extra.get("probes", {}))
    n_opt = getattr(mod, "OPTIMISED_PASS", {"quick": 60, "thorough": 600})[a.tier]
    if n_opt and not a.runs:
        try:
            extra = optimised_pass(pid, mod, a.tier, seed, n_opt)
        except Exception:
            if not tot["viols"]:
                print("HARNESS-ERROR property=%s optimised_pass: %s" % (pid, traceback.format_exc()))
                return EXIT_HARNESS
            extra = {}
        tot["viols"].extend(extra.get("viols", []))
        _merge(tot["probes"], extra.get("probes", {}))

    # ---- violations: minimise, write replay files, match known findings
    exit_code = EXIT_OK
    reported = 0
    known_lines = []
    tot["viols"].sort(key=lambda v: v[0])
    # one report per oracle tag; among the runs showing a tag prefer the first one that reproduces here, in a process that
    # has executed nothing else (a run that only fails after other scenarios ran in its worker is kept as a fallback)
    by_tag = {}
    for v in tot["viols"]:
        by_tag.setdefault(v[2][0][0], []).append(v)
    chosen = []
    for tag, lst in by_tag.items():
        pick = lst[0]
        for cand in lst[:12]:
            res = isolated_tags(pid, cand[1])
            if res is not None and tag in [t for t, _ in res[0]]:
                pick = cand
                break
        else:
            # none of the stored runs stands on its own (each failed because of what its worker had executed before): look
            # through the other runs that showed this tag for one that does, re-generating each from its index
            more = sorted(i for i, t_ in tot["viol_idx"] if t_ == tag and i not in {c[0] for c in lst})
            step = max(1, len(more) // 40)
            for i in more[::step][:40]:
                sc_i = mod.gen(run_seed(seed, pid, i), a.tier)
                sc_i.update(property=pid, verif_seed=seed, run=i)
                res = isolated_tags(pid, sc_i)
                if res is not None and tag in [t for t, _ in res[0]]:
                    pick = (i, sc_i, res[0])
                    break
        chosen.append(pick)
    chosen.sort(key=lambda v: v[0])
    seen_tags = set()
    for idx, sc, viol in chosen:
        tag, detail = viol[0]
        if tag in seen_tags or len(seen_tags) >= 3:
            continue
        seen_tags.add(tag)
        # minimisation runs in a child too, so that this process never executes a scenario itself
        if a.no_shrink or sc.get("_hashseed_pair"):
            small, sruns = sc, 0          # (a hash-seed pair costs two interpreter starts per candidate: reported unreduced)
        else:
            res = _in_child(lambda: shrink(load_prop(pid), sc, tag), timeout=240)
            small, sruns = res if res is not None else (sc, 0)
        res = isolated_tags(pid, small)
        if res is None or tag not in [t for t, _ in res[0]]:
            # the minimised scenario does not stand on its own: fall back to the scenario as found, then to the scenario
            # executed twice in a row, then report it unreduced with a note (state kept inside the library between uses)
            small, sruns = sc, 0
            res = isolated_tags(pid, small)
            if (res is None or tag not in [t for t, _ in res[0]]) and not sc.get("_repeat"):
                rep = dict(sc, _repeat=2)
                res2 = isolated_tags(pid, rep)
                if res2 is not None and tag in [t for t, _ in res2[0]]:
                    small, res = rep, res2
                else:
                    small = dict(sc, _note="violation observed in a worker process after other scenarios had run; not reproduced "
                                           "in isolation: the library keeps state between uses (this replay may pass)")
        viol_now, dig_now = res if res is not None else ([], "")
        d = dict(viol_now).get(tag, detail)
        small = dict(small)
        small["violation"] = {"oracle": tag, "detail": d, "event_log_digest": dig_now, "shrink_runs": sruns,
                              "original_run": idx}
        rdir = os.environ.get("VERIF_REPLAY_DIR") or os.path.join(VERIF, "replays")
        os.makedirs(rdir, exist_ok=True)
        rp = os.path.join(rdir, "%s-%d-%d-%s.json" % (pid, seed, idx, tag.replace("/", "_").replace(":", "_")[:40]))
        with open(rp, "w") as f:
            json.dump(small, f, indent=1, default=str)
        kf = match_known(pid, mod, small, tag, d)
        if kf is not None:
            known_lines.append("KNOWN-FINDING: property=%s %s" % (pid, kf.get("description", tag)))
            continue
        print("VIOLATION property=%s replay=%s oracle=%s detail=%s" % (pid, rp, tag, d))
        reported += 1
        exit_code = EXIT_VIOLATION
    for ln in sorted(set(known_lines)):
        print(ln)

    wall = time.time() - t0
    blind = tot["aborted"] > 0.2 * tot["n"]
    cov = {
        "evaluations": tot["n"],
        "distinct_nontrivial": len(tot["sigs"]),
        "rule": mod.RULE,
        "samples": tot["samples"][:3] if tot["samples"] else [{"note": "no non-trivial sample captured"}],
        "nontrivial_runs": tot["nontrivial"],
        "runs_requested": n_runs,
        "runs_per_hour": int(tot["n"] / max(wall, 1e-9) * 3600),
        "simulated_periods": tot["periods"],
        "simulated_minutes": round(tot["minutes"], 1),
        "scheduler_invocations": tot["calls"],
        "fault_counts": tot["faults"],
        "probe_counts": tot["probes"],
        "probes_at_zero": [p for p in getattr(mod, "PROBES", []) if not tot["probes"].get(p)],
        "fault_free_period_fraction": round(tot["ffp"] / tot["periods"], 4) if tot["periods"] else None,
        "aborted_runs": tot["aborted"],
        "abort_reasons": tot["abort_reasons"],
        "inconclusive": tot["inconclusive"],
        "determinism_rechecks": tot["det_checked"],
        "fault_dimension": getattr(mod, "FAULT_DIMENSION", ""),
        "real_vs_stub": getattr(mod, "REAL_VS_STUB", ""),
        "workers": workers,
        "violating_runs_seen": len(tot["viols"]),
        "exhaustive": False,
    }
    write_evidence(pid, a.tier, seed, cov, wall, reported, getattr(mod, "ASSUMPTIONS", []))
    print("%s tier=%s seed=%d runs=%d nontrivial_distinct=%d periods=%d faults=%s aborted=%d inconclusive=%d wall=%.1fs"
          % (pid, a.tier, seed, tot["n"], len(tot["sigs"]), tot["periods"], tot["faults"], tot["aborted"],
             tot["inconclusive"], wall))
    if tot["probes"]:
        print("probes:", json.dumps(tot["probes"], sort_keys=True))
    if exit_code == EXIT_OK and blind:
        print("HARNESS-ERROR property=%s blind: %d of %d runs aborted %s" % (pid, tot["aborted"], tot["n"], tot["abort_reasons"]))
        return EXIT_HARNESS
    return exit_code


if __name__ == "__main__":
    sys.exit(main())
