"""Reference replay of the sorting-based allocation (greedy closed form / round-robin deque) from first principles."""
from collections import deque
from . import phasor

ALG_VT, ALG_RT = 1e-5, 1e-7      # the tolerances hard-wired in acnportal.algorithms.utils
GUARD = 1e-9


def feasible(cons, phases, rates, guard=GUARD):
    """(verdict, conclusive) with the algorithm-side tolerances."""
    m, _ = phasor.margins(cons, phases, [[r] for r in rates], ALG_VT, ALG_RT)
    if m == float("inf"):
        return True, True
    scale = max([1.0] + [lim for _, lim in cons])
    if abs(m) < guard * scale:
        return m >= 0, False
    return m >= 0, True


def priority_keys(sort, sessions, t):
    """sessions: list of dicts with arrival, est_departure, rem_ap (remaining amp-periods), max_pilot."""
    out = []
    for s in sessions:
        if sort == "fcfs":
            k = s["arrival"]
        elif sort == "lcfs":
            k = -s["arrival"]
        elif sort == "edf":
            k = s["est_departure"]
        elif sort == "llf":
            k = (s["est_departure"] - t) - s["rem_ap"] / s["max_pilot"]
        elif sort == "lrpt":
            k = -(s["rem_ap"] / s["max_pilot"])
        else:
            raise ValueError(sort)
        out.append(k)
    return out


def distinct(keys, eps=1e-9):
    ks = sorted(keys)
    return all(b - a > eps * max(1.0, abs(a), abs(b)) for a, b in zip(ks, ks[1:]))


def round_robin(cons, phases, n, order, levels_of):
    """order: station indices in priority order; levels_of[i]: ascending allowable list already cut to [lb, ub].
    Returns (rates, conclusive)."""
    rates = [0.0] * n
    idx = {}
    for i in order:
        lv = levels_of[i]
        rates[i] = lv[0] if lv else 0.0
        idx[i] = 0
    ok, concl = feasible(cons, phases, rates)
    if not ok:
        return None, concl
    q = deque(order)
    conclusive = concl
    while q:
        i = q.popleft()
        lv = levels_of[i]
        if idx[i] < len(lv) - 1:
            rates[i] = lv[idx[i] + 1]
            ok, c = feasible(cons, phases, rates)
            conclusive = conclusive and c
            if ok:
                idx[i] += 1
                q.append(i)
            else:
                rates[i] = lv[idx[i]]
    return rates, conclusive


def min_alloc(keep, cons, phases, n, t, guard=GUARD, max_perms=24):
    """Uninterrupted charging (documented preprocessing): every session is pre-granted its EVSE's minimum pilot, in order
    of remaining time (less time first), if that is feasible given the minimums granted so far; a refused session gets
    nothing in this period. Feasibility is NOT monotone in the set of loads when phases differ, so the outcome can depend
    on the order among sessions that tie in remaining time (the library breaks such ties by list position, which the
    property does not constrain): every order consistent with the ties is replayed and the result is returned only if
    all agree. Returns ({station index: (lower bound, refused?)}, any_refused) or (None, _) when inconclusive."""
    import itertools
    rem_time = lambda x: max(0, min(x["departure"] - x["arrival"], x["departure"] - t))
    groups = {}
    for x in keep:
        groups.setdefault(rem_time(x), []).append(x)
    keys = sorted(groups)
    nperm = 1
    for k in keys:
        for j in range(2, len(groups[k]) + 1):
            nperm *= j
    if nperm > max_perms:
        return None, False
    result = None
    for combo in itertools.product(*[list(itertools.permutations(groups[k])) for k in keys]):
        order = [x for grp in combo for x in grp]
        rates = [0.0] * n
        lbs = {}
        for x in order:
            i = x["i"]
            rates[i] = x["min_pilot"]
            ok, concl = feasible(cons, phases, rates, guard=guard)
            if not concl:
                return None, False
            if ok:
                lbs[i] = (x["min_pilot"], False)
            else:
                rates[i] = 0.0
                lbs[i] = (0.0, True)
        if result is None:
            result = lbs
        elif result != lbs:
            return None, False
    result = result or {}
    return result, any(v[1] for v in result.values())
