"""In-process fake ACN-Data server (seam S5) and an independent RFC-1123 formatter/parser (integer arithmetic)."""
import calendar
import json
import re
import time
import urllib.parse

DAYS = ["Mon", "Tue", "Wed", "Thu", "Fri", "Sat", "Sun"]
MONTHS = ["Jan", "Feb", "Mar", "Apr", "May", "Jun", "Jul", "Aug", "Sep", "Oct", "Nov", "Dec"]


def rfc1123(epoch: int) -> str:
    t = time.gmtime(epoch)
    return "%s, %02d %s %04d %02d:%02d:%02d GMT" % (DAYS[t.tm_wday], t.tm_mday, MONTHS[t.tm_mon - 1], t.tm_year,
                                                     t.tm_hour, t.tm_min, t.tm_sec)


def parse_rfc1123(s: str) -> int:
    m = re.match(r"^\w{3},\s+(\d{1,2})\s+(\w{3})\s+(\d{4})\s+(\d{1,2}):(\d{2}):(\d{2})\s+GMT$", s, re.I)
    if not m:
        raise ValueError(s)
    d, mon, y, hh, mm, ss = m.groups()
    return calendar.timegm((int(y), MONTHS.index(mon) + 1, int(d), int(hh), int(mm), int(ss), 0, 0, 0))


class FakeConnectionError(Exception):
    pass


class InjectedValueError(ValueError):
    """What requests' Response.json() raises on a non-JSON body (injected)."""


class Response:
    def __init__(self, body, broken=False):
        self._body = body
        self._broken = broken
        self.headers = {"x-total-count": str(len(body.get("_items", []))) if isinstance(body, dict) else "0"}

    def json(self):
        if self._broken:
            raise InjectedValueError("Expecting value: line 1 column 1 (char 0)")
        return json.loads(json.dumps(self._body))   # a fresh copy per call, like a real body


class FakeServer:
    """docs: list of documents in *server order*. pages: list of page sizes (may contain 0); the remainder goes on a
    final page. faults: {request_index: 'not_json' | 'error_doc' | 'connection'}."""

    def __init__(self, docs, pages, faults=None, base="https://ev.caltech.edu/api/v1/", href_style="relative"):
        self.docs = docs
        self.pages = list(pages)
        self.faults = dict(faults or {})
        self.base = base
        self.requests = []     # (url, auth)
        self.exceptions = type("exc", (), {"ConnectionError": FakeConnectionError})
        self.ConnectionError = FakeConnectionError
        self._plan = None
        self._selected = None
        self.href_style = href_style
        self.fired = None
        self.stale_total = 0        # the result set grew by this many documents after the first page's '_meta.total' was computed
        self.ignore_where = False   # fault: a lenient / clock-skewed server that returns documents outside the requested window
        self.extra = {}        # site -> {"docs", "pages", "plan", "selected"}: further result sets served concurrently
        self.cursor_mode = False    # cursor-style paging: every page carries the SAME 'next' href; the server keeps the position
        self._cursor_pos = 0

    def add_site(self, site, docs, pages):
        """A second/third result set, keyed by site, so that several client generators can be alive at once."""
        self.extra[site] = {"docs": docs, "pages": list(pages), "plan": None, "selected": None}

    # -- query handling
    def _select(self, query):
        docs = list(self.docs)
        where = query.get("where")
        if where and not self.ignore_where:
            for cond in where.split(" and "):
                m = re.match(r'^(\w+) (>=|<=|>) "?(.*?)"?$', cond.strip())
                if not m:
                    raise ValueError("cannot parse where clause %r" % cond)
                field, op, val = m.groups()
                if field == "connectionTime":
                    v = parse_rfc1123(val)
                    key = lambda d: parse_rfc1123(d["connectionTime"])
                else:
                    v = float(val)
                    key = lambda d: float(d[field])
                if op == ">=":
                    docs = [d for d in docs if key(d) >= v]
                elif op == "<=":
                    docs = [d for d in docs if key(d) <= v]
                else:
                    docs = [d for d in docs if key(d) > v]
        if query.get("sort") == "connectionTime":
            docs.sort(key=lambda d: parse_rfc1123(d["connectionTime"]))
        return docs

    def _page(self, k, site=None):
        if site is not None and site in self.extra:
            sel, sizes = self.extra[site]["selected"], self.extra[site]["plan"]
        else:
            sel, sizes, site = self._selected, self._plan, self._site
        start = sum(sizes[:k])
        items = sel[start:start + sizes[k]]
        # Eve-style paging metadata; 'total' is what the server counted when the query started (it may be stale: documents that
        # arrive while the client is paging are still served by following the 'next' links)
        body = {"_items": items, "_links": {"self": {"href": "x"}},
                "_meta": {"page": k + 1, "max_results": max([1] + list(sizes)), "total": max(0, len(sel) - self.stale_total)}}
        if k + 1 < len(sizes):
            href = "sessions/%s?page=%d&tok=%d" % (site, k + 2, 7919 * (k + 2))
            if self.cursor_mode and site == getattr(self, "_site", None) and site not in self.extra:
                href = "sessions/%s?cursor=next" % site
            body["_links"]["next"] = {"href": href, "title": "next page"}
        return body

    def get(self, url, auth=None, **kw):
        n = len(self.requests)
        self.requests.append((url, auth))
        f = self.faults.get(n)
        if f:
            self.fired = (n, f)
        if f == "connection":
            raise FakeConnectionError("connection reset (injected)")
        if not url.startswith(self.base):
            raise FakeConnectionError("unknown host in %r" % url)
        path = url[len(self.base):]
        p = urllib.parse.urlsplit(path)
        q = dict(urllib.parse.parse_qsl(p.query, keep_blank_values=True))
        m0 = re.match(r"^sessions/(\w+?)(/ts/)?$", p.path)
        xsite = m0.group(1) if m0 and m0.group(1) in self.extra else None
        if xsite is not None:
            st = self.extra[xsite]
            if "page" in q and st["plan"] is not None:
                return Response(self._page(int(q["page"]) - 1, xsite))
            save = self.docs
            self.docs = st["docs"]
            st["selected"] = self._select(q)
            self.docs = save
            rest = len(st["selected"])
            sizes = []
            for s_ in st["pages"]:
                s_ = min(s_, rest)
                sizes.append(s_)
                rest -= s_
            if rest > 0 or not sizes:
                sizes.append(rest)
            st["plan"] = sizes
            return Response(self._page(0, xsite))
        if "cursor" in q and self._plan is not None:
            self._cursor_pos += 1
            k = self._cursor_pos
        elif "page" in q and self._plan is not None:
            k = int(q["page"]) - 1
        else:
            self._cursor_pos = 0
            m = re.match(r"^sessions/(\w+?)(/ts/)?$", p.path)
            if not m:
                return Response({"_error": {"code": 404}}, broken=False)
            self._site = m.group(1)
            # the raw query keeps '&' inside values out of scope: values are generated without '&'
            self._selected = self._select(q)
            rest = len(self._selected)
            sizes = []
            for s in self.pages:
                s = min(s, rest)
                sizes.append(s)
                rest -= s
            if rest > 0 or not sizes:
                sizes.append(rest)
            self._plan = sizes
            self.first_query = q
            k = 0
        if f == "not_json":
            return Response({}, broken=True)
        if f == "error_doc":
            return Response({"_status": "ERR", "_error": {"code": 500, "message": "injected"}})
        return Response(self._page(k))

    def head(self, url, headers=None, **kw):
        self.requests.append((url, headers))
        return Response({"_items": self.docs})
