"""Feasibility by the phasor definition, in plain Python (cmath loops), plus the exact 1-D maximum."""
import cmath
import math


def unit(theta_deg):
    return cmath.exp(1j * math.radians(theta_deg))


def tol_of(limit, vt, rt):
    return max(vt, rt * limit)


def margins(cons, phases, M, vt, rt):
    """cons: list of (coeff list aligned with stations, limit); M: N x T list of lists.
    Returns (min margin over constraints and periods, argmin (j, t)). margin = limit + tol - |sum|."""
    best = (float("inf"), None)
    if not cons or not M or not M[0]:
        return best
    T = len(M[0])
    u = [unit(p) for p in phases]
    for j, (row, lim) in enumerate(cons):
        cap = lim + tol_of(lim, vt, rt)
        for t in range(T):
            s = 0j
            for k, c in enumerate(row):
                if c:
                    s += c * M[k][t] * u[k]
            m = cap - abs(s)
            if m < best[0]:
                best = (m, (j, t))
    return best


def linear_margins(cons, M, vt, rt):
    """Margins of the conservative linearisation sum_k |c_k| r_k (valid bound for non-negative schedules)."""
    best = float("inf")
    if not cons or not M or not M[0]:
        return best
    T = len(M[0])
    for row, lim in cons:
        cap = lim + tol_of(lim, vt, rt)
        for t in range(T):
            s = sum(abs(c) * M[k][t] for k, c in enumerate(row))
            best = min(best, cap - abs(s))
    return best


def max_scale(cons, phases, M, vt, rt, k):
    """Scale factor g such that the most binding constraint of g*M sits at limit + k * tol (g > 0), or None."""
    g = float("inf")
    u = [unit(p) for p in phases]
    T = len(M[0])
    for row, lim in cons:
        target = lim + k * tol_of(lim, vt, rt)
        if target <= 0:
            continue
        for t in range(T):
            s = abs(sum(c * M[i][t] * u[i] for i, c in enumerate(row) if c))
            if s > 1e-12:
                g = min(g, target / s)
    return None if g == float("inf") else g


def max_feasible_1d(cons, phases, rates, i, lb, ub, vt, rt):
    """Exact sup of {x in [lb, ub] : for all j |a_j + b_j x| <= L_j + tol_j} given the other rates fixed.
    Assumes x = lb is feasible. Returns (x_star, min margin at ub, min margin at x_star+/-)."""
    u = [unit(p) for p in phases]
    hi = ub
    for row, lim in cons:
        c = row[i]
        if not c:
            continue
        cap = lim + tol_of(lim, vt, rt)
        a = sum(ck * rates[k] * u[k] for k, ck in enumerate(row) if ck and k != i)
        b = c * u[i]
        # |a + b x|^2 = |b|^2 x^2 + 2 Re(a conj(b)) x + |a|^2 <= cap^2
        A = abs(b) ** 2
        B = 2 * (a * b.conjugate()).real
        C = abs(a) ** 2 - cap ** 2
        disc = B * B - 4 * A * C
        if disc < 0:
            hi = min(hi, lb)
            continue
        root = (-B + math.sqrt(disc)) / (2 * A)
        hi = min(hi, root)
    return max(lb, hi)
