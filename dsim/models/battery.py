"""Reference battery laws (plain Python, no numpy): the documented charging laws of C14."""
import math


def ideal_power(pilot, voltage, period, capacity, charge, max_power):
    """kW drawn by the ideal battery: min(pilot power, max power, power that exactly fills it in the period)."""
    return min(pilot * voltage / 1000.0, max_power, (capacity - charge) / (period / 60.0))


def two_stage_soc(soc, pilot, voltage, period, capacity, max_power, ts):
    """SoC after one period of the documented two-stage law, closed form.

    Law: dsoc/dt = min(p, m * min(1, (1 - soc) / (1 - ts)))   (t in periods)
    with p = pilot power, m = max power, both in SoC per period, p capped at m."""
    hours = period / 60.0
    p = pilot * voltage / 1000.0 * hours / capacity
    m = max_power * hours / capacity
    if p <= 0:
        return soc
    p = min(p, m)
    # the declining cap m*(1-soc)/(1-ts) drops below p above s_star
    s_star = 1.0 - (p / m) * (1.0 - ts)
    if soc < s_star:
        tau = (s_star - soc) / p
        if tau >= 1.0:
            return soc + p
        rem = 1.0 - tau
        return 1.0 - (1.0 - s_star) * math.exp(-m / (1.0 - ts) * rem)
    return 1.0 - (1.0 - soc) * math.exp(-m / (1.0 - ts))


def two_stage_soc_numeric(soc, pilot, voltage, period, capacity, max_power, ts, steps=4000):
    """Independent numeric integration (RK4 on each smooth piece, switch located by step splitting)."""
    hours = period / 60.0
    p = min(pilot * voltage / 1000.0, max_power) * hours / capacity
    m = max_power * hours / capacity
    if p <= 0:
        return soc

    def f(s):
        return min(p, m * min(1.0, (1.0 - s) / (1.0 - ts)))
    h = 1.0 / steps
    s = soc
    for _ in range(steps):
        k1 = f(s)
        k2 = f(s + 0.5 * h * k1)
        k3 = f(s + 0.5 * h * k2)
        k4 = f(s + h * k3)
        s += h * (k1 + 2 * k2 + 2 * k3 + k4) / 6.0
    return s
