"""Reference tariff lookup: reads the bundled JSON itself; exact Fractions for time of day."""
import json
import os
from fractions import Fraction


def load(repo, name):
    p = os.path.join(repo, "acnportal", "signals", "tariffs", "tariff_schedules", name + ".json")
    return json.load(open(p))


def _md(s):
    a, b = s.split("-")
    return (int(a), int(b))


def matching(doc, d):
    """Schedules of doc that apply on datetime d."""
    md = (d.month, d.day)
    wd = d.weekday()
    out = []
    for s in doc["schedule"]:
        st, en = _md(s["effective_start"]), _md(s["effective_end"])
        in_season = (st <= md <= en) if st <= en else (md >= st or md <= en)
        mask = s["dow_mask"]
        in_dow = mask == "ALL" or (mask == "WEEKDAYS" and wd < 5) or (mask == "WEEKENDS" and wd >= 5)
        if in_season and in_dow:
            out.append(s)
    return out


def price_of(s, d):
    h = Fraction(d.hour) + Fraction(d.minute, 60) + Fraction(d.second, 3600)
    best = None
    for t, r in zip(s["times"], s["tariffs"]):
        ft = Fraction(str(t))
        if ft <= h and (best is None or ft >= best[0]):
            best = (ft, float(r))
    return None if best is None else best[1]


def breakpoints(doc):
    out = set()
    for s in doc["schedule"]:
        for t in s["times"]:
            out.add(Fraction(str(t)))
    return sorted(out)


def season_edges(doc):
    out = set()
    for s in doc["schedule"]:
        out.add(_md(s["effective_start"]))
        out.add(_md(s["effective_end"]))
    return sorted(out)
