"""Import the system under test from $VERIF_REPO (default /repo): always the current working tree."""
import os
import sys
import warnings

REPO = os.path.realpath(os.environ.get("VERIF_REPO", "/repo"))
if sys.path[0] != REPO:
    sys.path.insert(0, REPO)
os.environ.setdefault("ACNPORTAL_VERIF", "1")

with warnings.catch_warnings():
    warnings.simplefilter("ignore")
    import numpy as np  # noqa
    import pandas as pd  # noqa
    import acnportal  # noqa

if not os.path.realpath(acnportal.__file__).startswith(REPO + os.sep):      # (not an assert: the checks also run under python -O)
    raise ImportError("acnportal imported from %s, expected under %s" % (acnportal.__file__, REPO))

from acnportal import acnsim  # noqa
from acnportal.acnsim import (Simulator, EventQueue, PluginEvent, UnplugEvent, RecomputeEvent, Event,  # noqa
                              ChargingNetwork, Current, EV, Battery, Linear2StageBattery, EVSE,
                              DeadbandEVSE, FiniteRatesEVSE, Interface)
from acnportal.acnsim.interface import SessionInfo, InfrastructureInfo, InvalidScheduleError  # noqa
from acnportal.acnsim.models.evse import InvalidRateError, StationOccupiedError  # noqa
from acnportal.acnsim.models import evse as evse_mod, battery as battery_mod  # noqa
from acnportal.acnsim.network import charging_network as cn_mod  # noqa
from acnportal.algorithms import (BaseAlgorithm, SortedSchedulingAlgo, RoundRobin, UncontrolledCharging,  # noqa
                                  first_come_first_served, last_come_first_served,
                                  earliest_deadline_first, least_laxity_first,
                                  largest_remaining_processing_time)
from acnportal.algorithms import utils as algo_utils  # noqa
from acnportal.algorithms.upper_bound_estimator import UpperBoundEstimatorBase, SimpleRampdown  # noqa

SORTS = {
    "fcfs": first_come_first_served,
    "lcfs": last_come_first_served,
    "edf": earliest_deadline_first,
    "llf": least_laxity_first,
    "lrpt": largest_remaining_processing_time,
}


def _user_sort_by_id(evs, iface):
    """A user-defined sort function (documented extension point of the sorting algorithms): by session id, descending."""
    return sorted(evs, key=lambda x: str(x.session_id), reverse=True)


def _user_sort_by_request(evs, iface):
    """A user-defined sort function: largest request first, ties by station id."""
    return sorted(evs, key=lambda x: (-x.requested_energy, str(x.station_id)))


SORTS["user_id"] = _user_sort_by_id
SORTS["user_request"] = _user_sort_by_request


def in_repo(path: str) -> bool:
    return os.path.realpath(path).startswith(REPO + os.sep)
