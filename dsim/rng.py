"""One integer decides everything: named, hash-derived PRNG sub-streams."""
import hashlib
import random


def H(*parts) -> int:
    h = hashlib.sha256(repr(parts).encode()).digest()
    return int.from_bytes(h[:8], "big")


def sub(seed: int, *names) -> random.Random:
    """Private PRNG for a named purpose. Named (not positional) so a shrinker can drop one
    scenario element without shifting the draws of any other."""
    return random.Random(H(seed, *names))


def run_seed(verif_seed: int, prop: str, idx: int) -> int:
    return H("run", verif_seed, prop, idx)


def digest(obj) -> str:
    return hashlib.sha256(repr(obj).encode()).hexdigest()[:16]
