"""Seeded interleaving of caller threads (the library has no threads of its own; its callers may).

Real threads, one baton: exactly one of them runs at any moment. Every Python *line* executed inside the repository's code is a
pre-emption point (sys.settrace line events); at each one the seeded scheduler decides which thread proceeds next. numpy calls are
atomic steps. One rng -> one interleaving, exactly repeatable; the sequence of switches is returned for the event log.
"""
import sys
import threading


class Interleaver:
    def __init__(self, rng, in_repo, switch_prob=0.35, step_cap=200000, wait_s=30.0):
        self.r = rng
        self.in_repo = in_repo
        self.p = switch_prob
        self.cap = step_cap
        self.wait_s = wait_s

    def run(self, fns):
        n = len(fns)
        cv = threading.Condition()
        state = {"turn": 0, "steps": 0, "switches": 0, "dead": None}
        done = [False] * n
        res = [None] * n
        trace_log = []

        def pick(cur):
            alive = [j for j in range(n) if not done[j]]
            if not alive:
                return None
            if cur in alive and self.r.random() >= self.p:
                return cur
            return alive[self.r.randrange(len(alive))]

        def hand_over(i, nxt):
            # called with cv held by thread i
            if nxt is None or nxt == i:
                return
            state["turn"] = nxt
            state["switches"] += 1
            trace_log.append(nxt)
            cv.notify_all()
            while state["turn"] != i and not done[i]:
                if not cv.wait(self.wait_s):
                    state["dead"] = "thread %d starved" % i
                    raise RuntimeError(state["dead"])

        def make_tracer(i):
            def local(frame, event, arg):
                if event == "line":
                    with cv:
                        state["steps"] += 1
                        if state["steps"] > self.cap:
                            raise RuntimeError("interleaver step cap")
                        hand_over(i, pick(i))
                return local

            def glob(frame, event, arg):
                return local if self.in_repo(frame.f_code.co_filename) else None
            return glob

        def worker(i):
            with cv:
                while state["turn"] != i:
                    if not cv.wait(self.wait_s):
                        state["dead"] = "thread %d never started" % i
                        done[i] = True
                        cv.notify_all()
                        return
            sys.settrace(make_tracer(i))
            try:
                res[i] = ("ok", fns[i]())
            except BaseException as e:      # recorded, judged by the caller
                res[i] = ("exc", e)
            finally:
                sys.settrace(None)
                with cv:
                    done[i] = True
                    nxt = pick(None)
                    if nxt is not None:
                        state["turn"] = nxt
                        trace_log.append(nxt)
                    cv.notify_all()

        ths = [threading.Thread(target=worker, args=(i,), daemon=True) for i in range(n)]
        state["turn"] = self.r.randrange(n)
        trace_log.append(state["turn"])
        for t in ths:
            t.start()
        for t in ths:
            t.join(self.wait_s * 2)
        if any(t.is_alive() for t in ths) or state["dead"]:
            raise RuntimeError("interleaver: %s" % (state["dead"] or "a thread did not finish"))
        return res, {"steps": state["steps"], "switches": state["switches"], "order": trace_log[:200]}
