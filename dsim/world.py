"""Swarm-style scenario generator: one run seed -> a plain-JSON world (the replay file).

Every random decision is drawn from a *named* sub-stream of the run seed, so the structural shrinker can
delete a session / station / fault without shifting any other draw.
"""
import copy
from .rng import sub

VOLTAGES = [120, 208, 240, 277]
PHASES3 = [30, -90, 150]
STATION_NAMES = ["A", "B", "C", "D", "E", "F", "G", "H", "I", "J", "K", "L"]

DEFAULT_PROFILE = dict(
    stations=(1, 6),
    evse_kinds={"cont": 4, "dead": 2, "finite": 3, "cont_inf": 1},
    net="custom",                 # custom | stochastic
    constraints={"none": 2, "single": 2, "three": 3},
    binding=(0.3, 1.5),           # limit as a fraction of sum of max pilots in the row
    horizon=(4, 30),
    chain_fill=(0.3, 0.9),
    b2b=0.45,                     # probability that the next arrival == previous departure
    hot=0.4,                      # probability a time is snapped to a shared "hot" timestamp (pile-ups)
    battery={"ideal": 3, "l2c": 3, "l2s": 2},
    noise=0.25,
    demand=(0.05, 1.5),           # requested energy as fraction of what can be delivered in the stay
    est_dep_diff=0.3,
    party={"scripted": 4, "uncontrolled": 2, "greedy": 2, "rr": 1},
    sorts=["fcfs", "lcfs", "edf", "llf", "lrpt"],
    max_recompute=[None, None, 1, 1, 2, 3, 7],
    periods=[1, 5, 5, 5, 7.5, 15, 15, 60, 0.5, 2.5, 4.1, 0.125, 7, 8],
    extra_recompute=0.4,
    vacant_pilots=0.5,
    sid_mode={"plain": 3, "crossed": 1, "numeric": 0.4},
    faults={},                    # kind -> expected number per run (Poisson-ish)
    resume_modes=["rerun"],
    store_history=0.5,
    signals={"none": 1},
    tapes_noise=["prng", "zeros", "extreme", "alt"],
    tapes_choice=["prng", "first", "last"],
    estimator={"none": 1},
    uninterrupted=0.0,
    rr_inc=[0.5, 1, 3],
    heterovolt=0.5,
    allow_last_period_crash=True,
    sessions_cap=16,
    stoch_early=0.5,
    second_life=0.0,              # probability that the judged run re-uses objects (network/queue/EVs/algorithm) of an earlier run
    custom_events=0.0,            # probability of user-defined base Events placed in periods that also hold a built-in event
    near_level_pilots=0.0,        # scripted party: share of finite-rate pilots placed within the EVSE's 1e-3 A tolerance of a level
    reconfig=0.0,                 # probability that the operator changes constraint limits mid-run (environment fault)
    reconfig_at_crash=0.5,        # ... and, given a limit change and an interruption, that the change is made AT the interruption point
    forced_unplug=0.0,            # probability (given an interruption) that the operator pulls a cable at the interruption point (C05)
    monitor=0.1,                  # probability that an operator script reads sim.*_as_df() at the end of some periods and edits its frames
    refill=0.15,                  # probability that later events are added to the simulator's queue only after run() returned (run() is then called again)
    aware_start=0.0,              # probability that the simulation start is a pytz-aware instant a few periods before a DST transition of its zone
    evse_subclass=0.1,            # probability that continuous EVSEs of the world are instances of a user subclass of EVSE (overrides delegate to the base class)
    battery_subclass=0.08,        # probability that the world's batteries are instances of user subclasses (overrides delegate to the base class)
    zero_demand=0.0,              # per-session probability of a request of 0 / 0.5 Wh / 1 Wh (at or below the library's 'fully charged' threshold)
    event_subclass=0.1,           # probability that the world's plug-in / recompute events are instances of user subclasses of the built-in event types
)


def wchoice(r, weights: dict):
    ks = list(weights.keys())
    tot = float(sum(weights.values()))
    x = r.random() * tot
    acc = 0.0
    for k in ks:
        acc += weights[k]
        if x < acc:
            return k
    return ks[-1]


def profile(**over):
    p = copy.deepcopy(DEFAULT_PROFILE)
    p.update(over)
    return p


def _gen_evse(r, kind):
    if kind == "cont":
        return {"type": "EVSE", "max": r.choice([8, 16, 24, 32, 32, 40, r.randint(6, 80), round(r.uniform(6, 80), 2)]), "min": 0}
    if kind == "cont_neg":
        # a bidirectional EVSE (public option min_rate < 0): a scheduler may discharge the vehicle
        return {"type": "EVSE", "max": r.choice([16, 32, 32, 48]), "min": -r.choice([8, 16, 32])}
    if kind == "cont_inf":
        return {"type": "EVSE", "max": None, "min": 0}
    if kind == "dead":
        e_ = {"type": "Deadband", "deadband_end": r.choice([6, 6, 4, 8, round(r.uniform(0.5, 10), 1)]),
              "max": r.choice([16, 32, 32, 48, round(r.uniform(12, 80), 1)])}
        if r.random() < 0.06:
            e_["deadband_end"] = e_["max"]          # an on/off station: the only non-zero pilot it takes is its maximum
        elif r.random() < 0.04:
            e_["deadband_end"] = 0                  # no dead band at all (a legal zero)
        return e_
    if kind == "cont_zero":
        return {"type": "EVSE", "max": 0, "min": 0}      # a station taken out of service: 0 A is the only pilot it takes
    if kind == "finite":
        mode = r.random()
        if mode < 0.05:
            rates = [0] + [0.5 * k_ for k_ in range(12, 12 + r.choice([40, 60, 100]))]     # a fine-grained EVSE: dozens of levels
        elif mode < 0.3:
            rates = [0] + list(range(6, 33))
        elif mode < 0.5:
            rates = [0, 8, 16, 24, 32]
        else:
            n = r.randint(1, 6)
            rates = sorted({round(r.uniform(2, 48), r.choice([0, 1])) for _ in range(n)})
            if r.random() < 0.5:
                rates = [0] + rates
            if r.random() < 0.4:
                r.shuffle(rates)
            if r.random() < 0.3 and rates:
                rates.append(rates[0])
            if r.random() < 0.12 and rates:
                # two distinct levels a hair apart (a measured level next to its nominal value)
                rates.append(round(r.choice(rates) + r.choice([1e-4, 3e-4, 2e-3, 5e-3]), 6))
        return {"type": "Finite", "rates": rates}
    raise ValueError(kind)


def evse_max(e):
    if e["type"] == "Finite":
        return max([0] + list(e["rates"]))
    return e["max"]


def evse_levels(e):
    """Sorted distinct allowable finite levels incl. 0 (Finite only)."""
    return sorted(set([0] + list(e["rates"])))


def gen_world(rs: int, P: dict) -> dict:
    rvar = sub(rs, "variant").random()
    if rvar < P.get("long_chain", 0.02) and P["net"] == "custom":
        # many sessions one after the other on one or two stations (a station's 10th, 20th, ... occupant)
        P = dict(P, stations=(1, 2), horizon=(40, 90), sessions_cap=40, chain_fill=(0.97, 1.0), b2b=0.85, hot=0.05, max_stay=4)
    if P.get("long_chain", 0.02) <= rvar < P.get("long_chain", 0.02) + P.get("wide", 0.02) and P["net"] == "custom":
        # a wide site: dozens of stations (size-keyed code paths), short horizon
        P = dict(P, stations=(17, 70), horizon=(4, 10), sessions_cap=90, chain_fill=(0.2, 0.5))
    r = sub(rs, "shape")
    n_st = r.randint(*P["stations"])
    if P["stations"][1] >= 65 and sub(rs, "over64").random() < 0.35:
        n_st = sub(rs, "over64n").randint(65, 72)      # above the 64-station mark
    names_pool = STATION_NAMES if n_st <= len(STATION_NAMES) else ["S%03d" % i_ for i_ in range(n_st)]
    names = names_pool[:n_st]
    nm_ = r.random()
    if nm_ < 0.3:
        names = ["CA-%d" % (300 + 7 * i) for i in range(n_st)]
    elif nm_ < 0.4:
        # unusual but valid ids: numeric-looking strings, ids that are prefixes of each other, separators, spaces, non-ASCII, long
        names = (["1", "01", "10", "A", "AA", "A-1", "A/1", "a b", "\u00c4", "x" * 30, "0", "-1"] + ["n%d" % i_ for i_ in range(n_st)])[:n_st]
    elif nm_ < 0.44:
        # ids that differ only by surrounding whitespace / letter case (badly cleaned import files): different stations all the same
        names = (["PS-1", "PS-1 ", " PS-1", "ps-1", "PS-1\n", "PS-1\t", "Ps-1"] + ["n%d" % i_ for i_ in range(n_st)])[:n_st]
        r.shuffle(names)
    party_kind = wchoice(r, P["party"])
    sorted_party = party_kind in ("greedy", "rr")
    stations = []
    hetero = r.random() < P["heterovolt"]
    near_equal_v = sub(rs, "near_equal_voltages").random() < 0.05      # measured voltages: equal to within a few ppm, not exactly
    v0 = r.choice(VOLTAGES)
    ckind = wchoice(r, P["constraints"])
    palette = PHASES3
    rph = sub(rs, "phase_palette").random()
    if rph < 0.06:
        palette = [0, 180]                  # split-phase site: legs 180 degrees apart
    elif rph < 0.1:
        palette = [30, -150, 150]
    elif rph < 0.14:
        palette = [0, 45.5, -120, 240, 90]  # arbitrary angles (240 == -120)
    for i, nm in enumerate(names):
        rr_ = sub(rs, "station", nm)
        kinds = dict(P["evse_kinds"])
        if sorted_party or party_kind == "uncontrolled":
            kinds.pop("cont_inf", None)
            kinds.pop("cont_neg", None)
        if sorted_party:
            kinds.pop("dead", None)
        if not kinds:
            kinds = {"cont": 1}
        e = _gen_evse(rr_, wchoice(rr_, kinds))
        if party_kind == "rr" and e["type"] == "EVSE":
            e["max"] = rr_.choice([8, 16, 24, 32])
        stations.append({
            "id": nm, "evse": e,
            "voltage": (rr_.choice(VOLTAGES) if hetero else v0) * (1 + (rr_.choice([0, 2e-6, 8e-6, -5e-6]) if near_equal_v else 0)),
            "phase": (rr_.choice(palette) if ckind == "three" else 0),
        })
    rsub = sub(rs, "evse_subclass")
    if P.get("evse_subclass", 0) and rsub.random() < P["evse_subclass"]:
        for s_ in stations:
            if s_["evse"]["type"] == "EVSE" and rsub.random() < 0.6:
                s_["evse"]["sub"] = True
    reg_order = list(range(n_st))
    if r.random() < 0.5:
        r.shuffle(reg_order)
    stations = [stations[i] for i in reg_order]

    # constraints
    cons = []
    if ckind != "none":
        rc = sub(rs, "constraints")
        n_c = rc.randint(1, min(6 if n_st <= 16 else 70, n_st + 2))
        for j in range(n_c):
            k = rc.randint(1, n_st)
            members = rc.sample([s["id"] for s in stations], k)
            coeffs = {}
            for m in members:
                if ckind == "three" and rc.random() < 0.5:
                    c = rc.choice([1, 1, -1, 0.25, -0.25, 0.5, round(rc.uniform(-2, 2), 2) or 1])
                else:
                    c = 1
                coeffs[m] = c
            cap = 0.0
            for s in stations:
                if s["id"] in coeffs:
                    mx = evse_max(s["evse"])
                    cap += abs(coeffs[s["id"]]) * (mx if mx is not None else 40)
            frac = rc.uniform(*P["binding"])
            limit = max(1.0, round(cap * frac, rc.choice([0, 1, 3])))
            if rc.random() < 0.12 and all(c_ == 1 for c_ in coeffs.values()):
                ph0_ = next(s["phase"] for s in stations if s["id"] in coeffs)
                mems_ = [s for s in stations if s["id"] in coeffs and evse_max(s["evse"]) is not None and s["phase"] == ph0_]
                if mems_:
                    limit = float(sum(evse_max(s["evse"]) for s in rc.sample(mems_, rc.randint(1, len(mems_)))))   # exactly a sum of maxima
            cons.append({"name": "c%d" % j, "coeffs": coeffs, "limit": limit})
        if rc.random() < 0.06:
            # a constraint that loads nobody (a spare feeder: every coefficient 0): it can never bind, and it is still part of
            # the infrastructure (names, limits and row order) every party has to be told about
            mem0 = rc.sample([s["id"] for s in stations], rc.randint(1, n_st))
            cons.insert(rc.randint(0, len(cons)), {"name": "c%d" % len(cons), "coeffs": {m: 0 for m in mem0}, "limit": float(rc.choice([1, 25, 100]))})
        if cons and rc.random() < 0.07:
            # the same aggregate is limited twice (a breaker and the transformer behind it): identical rows, different limits, in
            # either order
            src_ = rc.choice([c_ for c_ in cons if any(v_ != 0 for v_ in c_["coeffs"].values())] or cons)
            cons.insert(rc.randint(0, len(cons)), {"name": "c%d" % len(cons), "coeffs": dict(src_["coeffs"]),
                                                   "limit": max(1.0, round(src_["limit"] * rc.choice([0.6, 0.8, 1.25, 1.5]), 2))})
        if rc.random() < 0.1:
            # unusual but valid constraint names: glob / regex metacharacters, spaces, numeric-looking, prefixes of each other
            pool = ["I[a]", "Sec*", "c?", "a b", "1", "01", "c", "cc", "A.B", "(x)", "c1|c2", "^p$"]
            for c_, nm_ in zip(cons, rc.sample(pool, min(len(pool), len(cons)))):
                c_["name"] = nm_
            if len(cons) >= 2 and rc.random() < 0.4:
                cons[0]["name"], cons[1]["name"] = "Line-A", "Line-a"      # two names that differ by case only
    tol = sub(rs, "tol")
    net = {
        "kind": P["net"],
        "violation_tolerance": tol.choice([1e-5, 1e-5, 1e-3, 1e-7, 0.01]),
        "relative_tolerance": tol.choice([1e-7, 1e-7, 1e-5, 1e-3, 0.0]),
        "stations": stations,
        "constraints": cons,
    }
    if P["net"] == "stochastic":
        net["early_departure"] = r.random() < P["stoch_early"]
    rcf = sub(rs, "call_form")
    if rcf.random() < 0.3:
        net["positional"] = True      # constructor arguments passed by position, in the released order
        for st_ in stations:
            if st_["evse"]["type"] in ("EVSE", "Deadband") and rcf.random() < 0.7:
                st_["evse"]["pos"] = True

    # simulation parameters
    rsim = sub(rs, "sim")
    period = rsim.choice(P["periods"])
    T = rsim.randint(*P["horizon"])
    hot = sorted({rsim.randint(0, T) for _ in range(rsim.randint(1, 3))})
    sim = {
        "period": period,
        "start": [2020 + rsim.randint(0, 3), rsim.randint(1, 12), rsim.randint(1, 28), rsim.randint(0, 23),
                  rsim.choice([0, 0, 15, 30, 47])],
        "store_schedule_history": rsim.random() < P["store_history"],
        "signals": wchoice(rsim, P["signals"]),
        "shuffle_events": rsim.randint(0, 10 ** 6),
    }
    ryr = sub(rs, "extreme_year")
    if ryr.random() < 0.03:
        sim["start"][0] = ryr.choice([1600, 2300, 9000])      # far outside the range a nanosecond timestamp can hold
    rsec = sub(rs, "start_seconds")
    if rsec.random() < 0.15:
        sim["start"] = sim["start"] + [rsec.choice([0, 1, 30, 59]), rsec.choice([0, 1, 500000, 999999])]   # seconds, microseconds
    ropt = sub(rs, "simopts")
    if ropt.random() < 0.06:
        sim["verbose"] = True          # rarely used public option (progress output goes to a sink)
    if ropt.random() < 0.06:
        sim["iface_sub"] = True        # interface_type: a user subclass of Interface that adds nothing
    if ropt.random() < 0.08:
        # the machine running the simulation sits in a zone with DST; half of these runs span the night of a transition
        sim["host_tz"] = ropt.choice(["America/Los_Angeles", "Europe/Berlin", "Australia/Sydney"])
        if ropt.random() < 0.5:
            mo_, d_ = {"America/Los_Angeles": [(3, 10), (11, 3)], "Europe/Berlin": [(3, 31), (10, 27)],
                       "Australia/Sydney": [(4, 7), (10, 6)]}[sim["host_tz"]][ropt.randrange(2)]
            sim["start"] = [2019, mo_, d_, ropt.choice([0, 1, 1]), ropt.choice([0, 30, 45])]
    if ropt.random() < 0.05 and P["net"] == "custom":
        sim["deepcopy_before_run"] = True   # the simulator that runs is a copy.deepcopy of the one that was built
    if ropt.random() < 0.08:
        sim["np_scalars"] = True       # arrivals / departures / energies / period handed over as numpy scalars
        net["np_scalars"] = True       # ... and the network's tolerances / flags too

    ra = sub(rs, "aware_start")
    if P.get("aware_start", 0) and ra.random() < P["aware_start"]:
        zone, (ty, tmo, td, th) = ra.choice([("America/Los_Angeles", (2019, 3, 10, 2)), ("America/Los_Angeles", (2019, 11, 3, 1)),
                                             ("Europe/London", (2019, 3, 31, 1)), ("Europe/London", (2019, 10, 27, 1)),
                                             ("Australia/Sydney", (2020, 4, 5, 2)), ("UTC", (2020, 6, 1, 0)), ("Asia/Kolkata", (2020, 6, 1, 0))])
        import datetime as _dt
        st_ = _dt.datetime(ty, tmo, td, th) - _dt.timedelta(minutes=int(period * ra.randint(0, max(1, T))) + ra.choice([0, 0, 7, 30]))
        sim["start"] = [st_.year, st_.month, st_.day, st_.hour, st_.minute]
        sim["start_tz"] = zone

    # sessions: per-station chains of non-overlapping stays
    sessions = []
    sid_mode = wchoice(r, P["sid_mode"])
    if P["net"] == "stochastic":
        rs_ = sub(rs, "stoch_sessions")
        n = rs_.randint(max(2, n_st), min(P["sessions_cap"], 3 * n_st + 3))
        for i in range(n):
            a = rs_.randint(0, max(0, T - 1))
            if rs_.random() < P["hot"]:
                a = rs_.choice(hot + [a])
                a = min(a, max(0, T - 1))
            d = a + rs_.randint(1, max(1, T // 2))
            if rs_.random() < P["hot"]:
                hs = [h for h in hot if h > a]
                if hs:
                    d = rs_.choice(hs)
            sessions.append(_mk_session(rs, "s%d" % i, rs_.choice([s["id"] for s in stations]), a, d, stations, period, P))
    else:
        for st in stations:
            rc = sub(rs, "chain", st["id"])
            t = 0
            if rc.random() < 0.7:
                t = rc.randint(0, max(0, T // 2))
            fill = rc.uniform(*P["chain_fill"])
            k = 0
            while t < T and len(sessions) < P["sessions_cap"]:
                if rc.random() > fill and k > 0:
                    break
                a = t
                if rc.random() < P["hot"]:
                    hs = [h for h in hot if h >= t]
                    if hs:
                        a = hs[0]
                stay = 1 if rc.random() < 0.15 else rc.randint(1, max(1, min(T // 2, P.get("max_stay") or T)))
                d = a + stay
                if rc.random() < P["hot"]:
                    hs = [h for h in hot if h > a]
                    if hs:
                        d = rc.choice(hs)
                sid = "%s_%d" % (st["id"], k)
                sessions.append(_mk_session(rs, sid, st["id"], a, d, stations, period, P))
                k += 1
                if rc.random() < P["b2b"]:
                    t = d
                else:
                    t = d + rc.randint(1, max(1, T // 4))
    if not sessions:
        st = stations[0]
        sessions.append(_mk_session(rs, "%s_0" % st["id"], st["id"], 0, 2, stations, period, P))
    ridle = sub(rs, "long_idle")
    if ridle.random() < P.get("long_idle", 0.03):
        # the simulation starts long before anything happens (hundreds of idle periods first)
        off_ = ridle.choice([150, 300, 700])
        if ridle.random() < P.get("very_long_idle", 0.0) / max(1e-9, P.get("long_idle", 0.03)):
            off_ = ridle.choice([3500, 17000, 17000, 20000])      # two weeks of one-minute periods before the first arrival
        for s_ in sessions:
            s_["arrival"] += off_
            s_["departure"] += off_
            if "est_departure" in s_:
                s_["est_departure"] += off_
        hot = [h + off_ for h in hot]
    if sid_mode == "crossed" and P["net"] != "stochastic" and n_st >= 2:
        # session ids that are *other* stations' ids (a station-keyed lookup is then wrong, not absent)
        ids = [s["id"] for s in stations]
        used = set()
        for s in sessions:
            cand = [i for i in ids if i != s["station"] and i not in used]
            if cand:
                s["session_id"] = cand[0]
                used.add(cand[0])
    rtw = sub(rs, "twins")
    if rtw.random() < 0.06 and P["net"] != "stochastic":
        # two sessions on different stations that are identical in every number (same arrival, stay, request, battery)
        firsts_ = {}
        for s_ in sorted(sessions, key=lambda z: (z["arrival"], z["session_id"])):
            firsts_.setdefault(s_["station"], s_)
        if len(firsts_) >= 2:
            a_, b_ = rtw.sample(sorted(firsts_.values(), key=lambda z: z["session_id"]), 2)
            later_b = [x_ for x_ in sessions if x_["station"] == b_["station"] and x_ is not b_]
            if all(x_["arrival"] >= a_["departure"] for x_ in later_b):
                for k_ in ("arrival", "departure", "energy"):
                    b_[k_] = a_[k_]
                b_["battery"] = copy.deepcopy(a_["battery"])
                b_.pop("est_departure", None)
                if "est_departure" in a_:
                    b_["est_departure"] = a_["est_departure"]
    if sid_mode == "numeric":
        # session ids that look like numbers (leading zeros, one a numeric prefix of another); they are strings
        pool = ["1001", "0007", "7", "007", "10", "1", "1e3", "0", "-1", "3.0", "12", "0012"]
        rn_ = sub(rs, "numeric_ids")
        rn_.shuffle(pool)
        for s_, nm_ in zip(sessions, pool):
            s_["session_id"] = nm_
    rsim.shuffle(sessions)

    extra = []
    rx = sub(rs, "extra")
    last = max(s["departure"] for s in sessions)
    if rx.random() < P["extra_recompute"]:
        for _ in range(rx.randint(1, 3)):
            extra.append({"type": "Recompute", "t": rx.randint(0, last + rx.choice([0, 0, 1, 3]))})

    if P.get("custom_events", 0) and rx.random() < P["custom_events"]:
        # a user-defined Event (base class, precedence inf) in a period that also holds a built-in event: processed last
        times = sorted({s["arrival"] for s in sessions} | {s["departure"] for s in sessions} | {e["t"] for e in extra})
        for _ in range(rx.randint(1, 3)):
            extra.append({"type": "Event", "t": rx.choice(times)})

    # party
    rp = sub(rs, "party")
    mr = rp.choice(P["max_recompute"])
    party = {"kind": party_kind, "max_recompute": mr, "vacant_pilots": rp.random() < P["vacant_pilots"],
             "len_mode": rp.choice(["one", "few", "few", "horizon", "mixed", "mixed"]),
             "subset_mode": rp.choice(["all", "occupied", "random", "random"]),
             "empty_prob": rp.choice([0, 0, 0.1, 0.3])}
    party["mapping_type"] = sub(rs, "mapping_type").choice(["dict"] * 8 + ["ordered", "defaultdict_list", "defaultdict_row"])
    if P.get("near_level_pilots"):
        party["near_level_pilots"] = P["near_level_pilots"]
    if sorted_party:
        party["sort"] = rp.choice(P["sorts"])
        party["estimator"] = wchoice(rp, P["estimator"])
        party["uninterrupted"] = rp.random() < P["uninterrupted"]
        party["max_recompute"] = rp.choice(P["sorted_max_recompute"]) if P.get("sorted_max_recompute") else 1
        if party_kind == "rr":
            party["continuous_inc"] = rp.choice(P["rr_inc"])
    if party_kind == "uncontrolled":
        party["max_recompute"] = 1

    sc = {"network": net, "sessions": sessions, "extra_events": extra, "sim": sim, "party": party,
          "faults": [], "tapes": {"noise": sub(rs, "tapes").choice(P["tapes_noise"]),
                                  "choice": sub(rs, "tapes2").choice(P["tapes_choice"])},
          "seed": rs}
    sc["faults"] = gen_faults(rs, sc, P)
    rl = sub(rs, "second_life")
    if P.get("second_life", 0) and P["net"] == "custom" and rl.random() < P["second_life"]:
        sc["second_life"] = {k: rl.random() < 0.6 for k in ("network", "queue", "evs", "algo")}
        if rl.random() < 0.4:
            sc["second_life"]["longer_first_life"] = rl.choice([3, 10, 25])
        if rl.random() < 0.3 and not sc["second_life"]["network"] and len(sc["network"]["stations"]) > 1:
            # the carried-over objects served a site whose stations were registered in another order (round 13)
            sc["second_life"]["first_perm"] = rl.randrange(10 ** 6)
    rf2 = sub(rs, "refill")
    if P.get("refill", 0) and rf2.random() < P["refill"]:
        cuts = refill_cuts(sc)
        if cuts:
            sc["refill"] = sorted(rf2.sample(cuts, min(len(cuts), rf2.choice([1, 1, 2]))))
    rb2 = sub(rs, "battsub")
    if P.get("battery_subclass", 0) and rb2.random() < P["battery_subclass"]:
        for s_ in sessions:
            if rb2.random() < 0.6:
                s_["battery"]["sub"] = True
    rs2 = sub(rs, "evsub")
    if P.get("event_subclass", 0) and rs2.random() < P["event_subclass"]:
        for s_ in sessions:
            if rs2.random() < 0.5:
                s_["ev_sub"] = True
        for e_ in extra:
            if e_.get("type") != "Event" and rs2.random() < 0.5:
                e_["sub"] = True
    rr2 = sub(rs, "reconfig")
    if cons and P.get("reconfig", 0) and rr2.random() < P["reconfig"] and last >= 1:
        rc = []
        for _ in range(rr2.randint(1, 2)):
            k = rr2.choice(cons)
            rc.append({"t": rr2.randint(1, last), "name": k["name"],
                       "limit": max(1.0, round(k["limit"] * rr2.choice([0.4, 0.6, 0.8, 1.25, 1.6, 2.5]), 1))})
        rrw = sub(rs, "reconfig_rewire")
        if rrw.random() < P.get("reconfig_rewire", 0.25):
            # the operator moves a station onto / off a feeder: update_constraint under the same name with another set of stations
            rcw = rrw.choice(rc)
            kc_ = next(k_ for k_ in cons if k_["name"] == rcw["name"])
            co_ = dict(kc_["coeffs"])
            others_ = [s_["id"] for s_ in stations if s_["id"] not in co_]
            if others_ and (len(co_) < 2 or rrw.random() < 0.6):
                co_[rrw.choice(others_)] = rrw.choice([1, 1, -1, 0.5])
            elif len(co_) >= 2:
                co_.pop(rrw.choice(sorted(co_)))
            rcw["coeffs"] = co_
        ras = sub(rs, "reconfig_assign")
        if ras.random() < P.get("reconfig_assign", 0.2):
            # the operator overwrites the network's public limits vector (network.magnitudes = new array) instead of calling
            # update_constraint: same rows, same order, one other limit
            ras.choice(rc)["op"] = "assign"
        rrm = sub(rs, "reconfig_remove")
        if rrm.random() < P.get("reconfig_remove", 0.3):
            # the operator withdraws a limit altogether (a bare remove_constraint, nothing added in its place)
            rrm.choice(rc)["op"] = "remove"
        sc["reconfig"] = sorted(rc, key=lambda x: x["t"])
    place_crash_interventions(rs, sc, P)
    rld = sub(rs, "departure_set_late")
    if rld.random() < P.get("departure_set_late", 0.06) and P["net"] != "stochastic":
        for s_ in sessions:
            if rld.random() < 0.6 and not s_.get("battery_of"):
                s_["departure_set_late"] = rld.randint(1, 9)       # built with a departure this much later, then corrected via the setter
    if sub(rs, "late_fill").random() < P.get("late_fill", 0.06):
        sc["sim"]["late_fill"] = True
    rmon = sub(rs, "monitor")
    if P.get("monitor", 0) and rmon.random() < P["monitor"] and last >= 1:
        # the operator's monitoring script: at the end of some periods it fetches the result tables and post-processes ITS frames in place
        sc["monitor"] = sorted({rmon.randint(0, last) for _ in range(rmon.randint(1, 3))})
    return sc


def constraints_at(sc, t):
    """Constraint list (network order) in force during period t: every reconfiguration with r.t <= t has been applied
    in order; ChargingNetwork.update_constraint removes the row and appends the updated one at the end."""
    cons = [dict(c) for c in sc["network"]["constraints"]]
    for r in sc.get("reconfig", []):
        if r["t"] <= t:
            for i, c in enumerate(cons):
                if c["name"] == r["name"]:
                    if r.get("op") == "assign":
                        cons[i] = dict(c, limit=r["limit"])      # (the row stays where it is)
                        break
                    c = dict(cons.pop(i), limit=r["limit"])
                    if r.get("coeffs") is not None and r.get("op") != "remove":
                        c["coeffs"] = dict(r["coeffs"])
                    if r.get("op") != "remove":
                        cons.append(c)
                    break
    return cons


def _mk_session(rs, sid, station, a, d, stations, period, P):
    rb = sub(rs, "session", sid)
    st = next(s for s in stations if s["id"] == station)
    mx = evse_max(st["evse"])
    if mx is None:
        mx = 40
    mx = max(mx, 6)
    v = st["voltage"]
    deliverable = mx * v / 1000.0 * (period / 60.0) * (d - a)
    energy = max(1e-3 * 5, deliverable * rb.uniform(*P["demand"]))
    energy = round(energy, 4)
    rco = sub(rs, "coincidence", sid)
    if rco.random() < 0.08 and d - a >= 1:
        # a request that is exactly k periods at the station's maximum pilot (remaining demand hits 0 exactly at a period end)
        energy = mx * v / 1000.0 * (period / 60.0) * rco.randint(1, d - a)
    if P.get("zero_demand", 0) and sub(rs, "zero_demand", sid).random() < P["zero_demand"]:
        energy = sub(rs, "zero_demand2", sid).choice([0.0, 5e-4, 1e-3])
    kind = wchoice(rb, P["battery"])
    max_power = round(rb.uniform(0.4, 1.6) * mx * v / 1000.0, 3)
    free = energy * rb.choice([1.0, 1.0, rb.uniform(0.4, 1.0), rb.uniform(1.0, 3.0)])
    cap_total = round(free * rb.choice([1.0, rb.uniform(1.0, 4.0)]) + 1e-6, 6)
    init = round(max(0.0, cap_total - free), 6)
    if init > cap_total:
        init = cap_total
    b = {"type": "Battery", "capacity": cap_total, "init": init, "max_power": max_power}
    if kind in ("l2c", "l2s"):
        b["type"] = "Linear2Stage"
        b["transition_soc"] = rb.choice([0.8, 0.8, 0.0, 0.5, 0.999, round(rb.uniform(0, 0.99), 3)])
        b["calc"] = "continuous" if kind == "l2c" else "stepwise"
        b["noise"] = round(rb.uniform(0.01, 2.0), 3) if rb.random() < P["noise"] else 0
        if rco.random() < 0.06 and 0 < b["transition_soc"] < 1:
            b["init"] = b["transition_soc"] * cap_total        # starts exactly at the transition state of charge
    s = {"session_id": sid, "station": station, "arrival": a, "departure": d, "energy": energy, "battery": b}
    if rb.random() < P["est_dep_diff"]:
        s["est_departure"] = max(a + 1, d + rb.randint(-3, 3))
        if rb.random() < 0.1:
            s["est_departure"] = d + rb.choice([50, 500])      # a driver who badly over-estimates the stay
    return s


def event_times(sc):
    """period -> list of (kind, session_id) per the scenario (reference, not the SUT)."""
    ev = {}
    for s in sc["sessions"]:
        ev.setdefault(s["arrival"], []).append(("Plugin", s["session_id"]))
        ev.setdefault(s["departure"], []).append(("Unplug", s["session_id"]))
    for e in sc["extra_events"]:
        ev.setdefault(e["t"], []).append((e.get("type", "Recompute"), None))
    return ev


def ambiguous_periods(sc):
    """Periods holding only user-defined base Events: the simulator does not treat them as a reason to reschedule, the
    property text ('an event occurred') could be read either way; oracles about invocation times skip such worlds
    (the generator never produces them; a shrinking step can)."""
    return sorted(t for t, l in event_times(sc).items() if all(k == "Event" for k, _ in l))


def refill_cuts(sc):
    """Valid 'refill' cut times of a scenario: T such that every event before T (incl. the unplug of every session that
    arrived before T) lies before T and at least one event lies on either side. With such a cut the run over the early
    events has ended (iteration <= T) when the operator adds the later events to the simulator's queue and calls run() again."""
    ev = event_times(sc)
    times = sorted(ev)
    out = []
    for T in times[1:]:
        if all(s["departure"] < T for s in sc["sessions"] if s["arrival"] < T):
            out.append(T)
    return out


def valid_refill(sc):
    if any(s.get("battery_of") is not None for s in sc["sessions"]):
        return []       # EV objects kept outside the simulator cannot share a battery with one inside a simulator that is reloaded from JSON
    ok = set(refill_cuts(sc))
    return sorted(c for c in (sc.get("refill") or []) if c in ok)


def last_event_time(sc):
    return max(event_times(sc).keys())


def call_periods(sc):
    """Reference model of scheduler invocation times (C05 model)."""
    ev = event_times(sc)
    mr = sc["party"]["max_recompute"]
    last_t = last_event_time(sc)
    calls = []
    last = None
    for t in range(0, last_t + 1):
        trig = t in ev and any(k != "Event" for k, _ in ev[t])
        if trig or (mr is not None and (last is None or t - last >= mr)):
            calls.append(t)
            last = t
    return calls


def attempt_plan(sc):
    """Reference model of the scheduler party's invocation ATTEMPTS: [(attempt number, period, fault kind or None)]. An attempt that
    crashes (or hands in a malformed schedule, which run() refuses) is repeated in the same period; an invalid pilot ends the run."""
    faults = {f["at_call"]: f for f in sc.get("faults", [])}
    plan, inv = [], 0
    for t in call_periods(sc):
        while True:
            inv += 1
            k = faults.get(inv, {}).get("kind")
            plan.append((inv, t, k))
            if k == "invalid_pilot":
                return plan
            if k not in ("crash", "mutate_crash", "malformed"):
                break
            if inv > 10000:
                break
    return plan


def crash_periods(sc):
    """Periods in which the fault plan interrupts run() with an exception from the scheduler (model; see attempt_plan)."""
    return sorted({t for _, t, k in attempt_plan(sc) if k in ("crash", "mutate_crash")})


def attempt_precedes_intervention(sc, rec):
    """True for a scheduler attempt that ends in an injected failure in a period for which the fault plan holds an operator
    intervention at the interruption point: what such an attempt saw (limits, connected sessions) is the state BEFORE the
    intervention, while constraints_at(sc, t) describes period t after it. Probes made during such an attempt are not judged."""
    if rec.get("fault") not in ("crash", "mutate_crash"):
        return False
    t = rec["t"]
    return any(r.get("at_crash") and r["t"] == t for r in sc.get("reconfig", ())) or any(iv["t"] == t for iv in sc.get("interventions", ()))


def place_crash_interventions(rs, sc, P):
    """Operator interventions AT an interruption point: between the scheduler's failure in period T and the resumption the operator
    changes a constraint limit (sc['reconfig'] entry with at_crash) or pulls a cable (sc['interventions']). Idempotent; the flags only
    take effect while the fault plan still interrupts period T (driver.Ctx.at_crash), otherwise the limit change happens between
    periods T-1 and T as usual and the cable stays in."""
    for r in sc.get("reconfig", []):
        r.pop("at_crash", None)
    sc.pop("interventions", None)
    cp = [t for t in crash_periods(sc) if t >= 1]     # (from period 1 on: a change "between periods T-1 and T" must remain possible)
    ri = sub(rs, "crash_interventions")
    if not cp:
        return sc
    if sc.get("reconfig") and ri.random() < P.get("reconfig_at_crash", 0.5):
        r = ri.choice(sc["reconfig"])
        r["t"] = ri.choice(cp)
        r["at_crash"] = True
        # (changes of one period are made in list order: between-period changes first, the one at the interruption point last)
        sc["reconfig"].sort(key=lambda x: (x["t"], bool(x.get("at_crash"))))
    if P.get("forced_unplug", 0) and ri.random() < P["forced_unplug"]:
        T = ri.choice(cp)
        cand = [s for s in sc["sessions"] if s["arrival"] <= T < s["departure"]]
        if cand:
            s = ri.choice(cand)
            sc["interventions"] = [{"t": T, "kind": "unplug", "session": s["session_id"], "station": s["station"]}]
    return sc


def gen_faults(rs, sc, P):
    rf = sub(rs, "faults")
    calls = call_periods(sc)
    ncalls = len(calls)
    out = []
    if not P["faults"] or ncalls == 0:
        return out
    ev = event_times(sc)
    last_t = last_event_time(sc)
    for kind, rate in P["faults"].items():
        n = 0
        x = rate
        while x > 0:
            if rf.random() < min(1.0, x):
                n += 1
            x -= 1.0
        for _ in range(n):
            # place inside activity: bias to calls right after a plug-in / in a pile-up / the last period
            bias = rf.random()
            cands = list(range(1, ncalls + 1))
            if bias < 0.25:
                c2 = [i + 1 for i, t in enumerate(calls) if any(k == "Plugin" for k, _ in ev.get(t, []))]
                cands = c2 or cands
            elif bias < 0.4:
                c2 = [i + 1 for i, t in enumerate(calls) if len(ev.get(t, [])) >= 2]
                cands = c2 or cands
            elif bias < 0.5 and P.get("allow_last_period_crash", True):
                cands = [ncalls]
            elif bias < 0.6:
                cands = [1]
            k = rf.choice(cands)
            if not P.get("allow_last_period_crash", True) and calls[k - 1] == last_t and kind in ("crash", "mutate_crash"):
                continue
            f = {"kind": kind, "at_call": k}
            if kind == "crash":
                f["resume"] = rf.choice(P["resume_modes"])
                f["when"] = rf.choice(["before", "before", "after"])
                if sub(rs, "interrupt", len(out)).random() < P.get("interrupts", 0.0):
                    f["exc"] = "interrupt"      # not an Exception subclass (KeyboardInterrupt)
            elif kind == "mutate_crash":
                f["resume"] = rf.choice(P["resume_modes"])
            elif kind == "malformed":
                f["how"] = rf.choice(["unknown_station", "ragged"])
                f["variant"] = rf.choice(["plus1", "one_short", "last_long", "empty_row", "first_long_rest_one"])
            elif kind == "beyond_horizon":
                f["extra_len"] = rf.randint(1, 6)
            elif kind in ("invalid_pilot", "future_invalid"):
                f["pick"] = rf.randint(0, 10 ** 6)
            out.append(f)
    # at most one fault of any kind per call index (crash may repeat on the next index)
    seen = set()
    res = []
    for f in sorted(out, key=lambda f: (f["at_call"], f["kind"])):
        key = f["at_call"]
        while key in seen:
            key += 1
        f["at_call"] = key
        seen.add(key)
        res.append(f)
    return res
