"""Run loop of one simulated world: run() -> crash -> (rerun | json_str | json_buf | json_file) -> resume ...

Owns the seams for the duration of a run (noise draw, random.choice, end-of-period tap, warnings), the event
log whose SHA-256 is the determinism digest, and the step-cap watchdog.
"""
import io
import os
import random as _random
import shutil
import tempfile
import traceback
import warnings

from . import sut
from .rng import sub, digest
from .party import Party, SchedulerCrash, SchedulerInterrupt
from .build import build_sim
from .world import last_event_time, valid_refill

np = sut.np


class StepCapExceeded(Exception):
    pass


class HarnessError(Exception):
    pass


class _FirstLifeFailed(Exception):
    pass


class Ctx:
    """Per-run context shared by driver, party and the end-of-period tap."""

    def __init__(self, sc, observe=0, snapshot=True, mutate_constraints=True):
        self.sc = sc
        self.sim = None
        self.observe = observe
        self.snapshot = snapshot
        self.mutate_constraints = mutate_constraints
        self.events = []          # event log (plain tuples)
        self.periods = []         # end-of-period snapshots
        self.fault_counts = {}
        self.pre_hooks = []
        self.post_hooks = []
        self.period_hooks = []
        self.cap = last_event_time(sc) + 2
        self.taps = 0
        self.stoch_pre = None
        self.voltage = {s["id"]: s["voltage"] for s in sc["network"]["stations"]}
        from .world import crash_periods
        self.crash_periods = set(crash_periods(sc)) if (any(r.get("at_crash") for r in sc.get("reconfig", ())) or sc.get("interventions")) else set()
        self.applied = set()
        self.cur_coeffs = {}
        self.intervention_late = False

    def log(self, item):
        self.events.append(item)

    def fired(self, kind):
        self.fault_counts[kind] = self.fault_counts.get(kind, 0) + 1
        self.events.append(("fault", kind))

    # ---- observation helpers (read-only)
    def station_state(self, sid):
        nw = self.sim.network
        ev = nw.get_ev(sid)
        evse = nw._EVSEs[sid]
        if ev is None:
            return (None, float(evse.current_pilot), None, None)
        return (ev.session_id, float(evse.current_pilot), float(ev.energy_delivered), float(ev._battery._current_charge))

    def state_digest(self):
        sim = self.sim
        nw = sim.network
        q = sorted(((int(ts), e.event_type, getattr(getattr(e, "ev", None), "session_id", None)) for ts, e in sim.event_queue.queue), key=repr)
        st_ = sim.start
        parts = [(st_.isoformat(), None if st_.utcoffset() is None else st_.utcoffset().total_seconds()), float(sim.period),
                 None if sim.max_recompute is None else int(sim.max_recompute),      # (values, not their numeric types: numpy scalars come back as Python numbers)
                 int(sim.iteration), sim.pilot_signals.shape, sim.pilot_signals.tobytes(), sim.charging_rates.tobytes(),
                 float(sim.peak), q, len(sim.event_history), sorted(sim.ev_history.keys(), key=repr),
                 None if sim.schedule_history is None else sorted(sim.schedule_history.keys(), key=repr),
                 [self.station_state(s) for s in nw.station_ids],
                 None if nw.constraint_matrix is None else nw.constraint_matrix.tobytes(), nw.magnitudes.tobytes(),
                 nw._voltages.tobytes(), nw._phase_angles.tobytes(), list(nw.constraint_index), list(nw.station_ids),
                 nw.max_pilot_signals.tobytes(), nw.min_pilot_signals.tobytes(),
                 [np.array(a).tobytes() for a in nw.allowable_rates], nw.is_continuous.tobytes()]
        return digest(parts)

    def on_period_end(self, network, pre=None):
        sim = self.sim
        if sim is None or network is not sim.network:
            return
        self.taps += 1
        t = sim.iteration
        if t > self.cap:
            raise StepCapExceeded("period %d beyond last event %d + 2" % (t, self.cap - 2))
        if self.snapshot:
            ids = network.station_ids
            rec = {"t": t, "st": {s: self.station_state(s) for s in ids}}
            if t < sim.charging_rates.shape[1]:
                rec["rates"] = [float(x) for x in sim.charging_rates[:, t]]
            else:
                rec["rates"] = None
            if t < sim.pilot_signals.shape[1]:
                rec["pilots"] = [float(x) for x in sim.pilot_signals[:, t]]
            else:
                rec["pilots"] = None
            rec["peak"] = float(sim.peak)
            if pre is not None:
                rec["pre"] = pre
            wq = getattr(network, "waiting_queue", None)
            if wq is not None:
                rec["waiting"] = list(wq.keys())
                rec["counters"] = (network.swaps, network.never_charged, network.early_unplug)
            self.periods.append(rec)
        self.events.append(("period", t))
        for h in self.period_hooks:
            h(self, network, t)
        for r in self.sc.get("reconfig", ()):
            if r["t"] == t + 1 and not self.at_crash(r):
                self.apply_reconfig(network, r)
            elif r["t"] == t and self.at_crash(r) and id(r) not in self.applied:
                # the interruption this change was tied to did not come in that period (the scheduler was not asked when the model
                # says it must be): the change is made now, and the run is not judged on anything that depends on it
                self.apply_reconfig(network, r)
                self.intervention_late = True
        if t in self.sc.get("monitor", ()) and self.sim is not None and network is self.sim.network:
            self.monitor(t)

    def at_crash(self, r):
        return bool(r.get("at_crash")) and r["t"] in self.crash_periods

    def crash_interventions(self, t):
        """What the operator does between the scheduler's failure in period t and the resumption."""
        nw = self.sim.network
        for r in self.sc.get("reconfig", ()):
            if r["t"] == t and self.at_crash(r) and id(r) not in self.applied:
                self.apply_reconfig(nw, r)
                self.fired("reconfig_at_interruption")
        for iv in self.sc.get("interventions", ()):
            if iv["t"] == t and iv["kind"] == "unplug" and id(iv) not in self.applied:
                self.applied.add(id(iv))
                for s in nw.station_ids:
                    ev = nw.get_ev(s)
                    if ev is not None and ev.session_id == iv["session"]:
                        nw.unplug(s, ev.session_id)
                        self.fired("cable_pulled_at_interruption")
                        self.events.append(("forced_unplug", t, s, iv["session"]))

    def monitor(self, t):
        """The operator's monitoring script (end of period t): fetch the result tables, post-process ITS OWN frames in place."""
        sim = self.sim
        r = sub(self.sc["seed"], "monitor:%d" % t)
        for name in ("pilot_signals_as_df", "charging_rates_as_df"):
            df = getattr(sim, name)()
            how = r.choice(["iloc", "loc", "clip", "values"])
            if df.shape[0] == 0 or df.shape[1] == 0:
                continue
            if how == "iloc":
                df.iloc[:, :] = -7.5
            elif how == "loc":
                df.loc[df.index[-1]:, :] = 99.0
                df.loc[:, df.columns[0]] = -1.0
            elif how == "clip":
                df.clip(lower=1000.0, inplace=True)
            else:
                try:
                    df.values[...] = 123.0
                except ValueError:
                    pass            # (read-only buffer: nothing to scribble on)
        # ... logs the objects it watches (str / repr / len / bool have no effect on what they show)
        for o_ in (sim, sim.network, sim.event_queue, sim.scheduler):
            str(o_), repr(o_)
        len(sim.event_queue), bool(sim.event_queue), sim.event_queue.empty()
        for s_ in sim.network.station_ids:
            ev_ = sim.network.get_ev(s_)
            if ev_ is not None:
                repr(ev_), str(ev_), repr(ev_._battery) if hasattr(ev_, "_battery") else None
        # ... and the containers the network's read-only properties hand out (each access builds a new one: they are the caller's)
        nw = sim.network
        ids_ = nw.station_ids
        how_ = r.choice(["reverse", "sort", "rotate", "append"])      # (mostly re-orderings: silent if they reach the network)
        if how_ == "reverse":
            ids_.reverse()
        elif how_ == "sort":
            ids_.sort(key=lambda x_: (len(str(x_)), str(x_)), reverse=r.random() < 0.5)
        elif how_ == "rotate" and len(ids_) > 1:
            ids_.append(ids_.pop(0))
        else:
            ids_.append("NOT-A-STATION")
        v_ = nw.voltages
        for k_ in list(v_):
            v_[k_] = -1.0
        v_.clear()
        ph_ = nw.phase_angles
        for k_ in list(ph_):
            ph_[k_] = 77.0
        act_ = nw.active_station_ids
        act_.clear()
        evl_ = nw.active_evs
        evl_.clear()
        if hasattr(nw, "available_evses"):
            fr_ = nw.available_evses()
            if isinstance(fr_, list):
                fr_.clear()
        cr_ = nw.current_charging_rates
        try:
            cr_[...] = -3.0
        except (ValueError, TypeError):
            pass
        self.fired("monitor_edited_its_frames")

    def apply_reconfig(self, network, r):
        self.applied.add(id(r))
        """Environment fault: the operator changes a constraint's limit between two periods (public update_constraint)."""
        c = next((k for k in self.sc["network"]["constraints"] if k["name"] == r["name"]), None)
        if c is None or r["name"] not in network.constraint_index:
            return
        if r.get("op") == "remove":
            network.remove_constraint(r["name"])
            self.fired("reconfig_remove")
        elif r.get("op") == "assign":
            new_ = np.array(network.magnitudes, dtype=float)
            new_[list(network.constraint_index).index(r["name"])] = r["limit"]
            network.magnitudes = new_
            self.fired("reconfig_limits_vector_assigned")
        else:
            co_ = r["coeffs"] if r.get("coeffs") is not None else self.cur_coeffs.get(r["name"], c["coeffs"])
            network.update_constraint(r["name"], sut.Current(dict(co_)), r["limit"])
            self.cur_coeffs[r["name"]] = dict(co_)
            if r.get("coeffs") is not None:
                self.fired("reconfig_rewired")
        self.fired("reconfig")
        self.events.append(("reconfig", r["t"], r["name"], r["limit"]))


_CUR = [None]


def _install_tap():
    """Class-level wrap of post_charging_update (documented override point): nothing lands in any object's __dict__."""
    saved = []
    CN = sut.ChargingNetwork
    orig = CN.post_charging_update

    def tapped(self):
        r = orig(self)
        c = _CUR[0]
        if c is not None:
            c.on_period_end(self)
        return r
    CN.post_charging_update = tapped
    saved.append((CN, orig))
    try:
        from acnportal.contrib.acnsim.network.stochastic_network import StochasticNetwork as SN
        orig2 = SN.post_charging_update

        def tapped2(self):
            c = _CUR[0]
            pre = None
            if c is not None and c.snapshot and c.sim is not None and self is c.sim.network:
                pre = {"st": {s: c.station_state(s) for s in self.station_ids}, "waiting": list(self.waiting_queue.keys())}
            r = orig2(self)
            if c is not None:
                c.on_period_end(self, pre=pre)
            return r
        SN.post_charging_update = tapped2
        saved.append((SN, orig2))
    except ImportError:
        pass
    return saved


def _remove_tap(saved):
    for cls, orig in saved:
        cls.post_charging_update = orig


class NoiseTape:
    def __init__(self, sc, ctx):
        self.mode = sc["tapes"].get("noise", "prng")
        self.r = sub(sc["seed"], "noise")
        self.n = 0
        self.ctx = ctx

    def __call__(self, loc=0.0, scale=1.0, size=None):
        if size is not None:
            raise HarnessError("noise seam called with size")
        self.n += 1
        m = self.mode
        if m == "zeros":
            z = 0.0
        elif m == "extreme":
            z = 6.0 if self.r.random() < 0.5 else -6.0
        elif m == "alt":
            z = 3.0 if self.n % 2 else -3.0
        elif isinstance(m, list):
            z = m[(self.n - 1) % len(m)] if m else 0.0
        else:
            z = self.r.gauss(0, 1)
        return loc + scale * z


class ChoiceTape:
    def __init__(self, sc, ctx):
        self.mode = sc["tapes"].get("choice", "prng")
        self.r = sub(sc["seed"], "choice")
        self.ctx = ctx
        self.n = 0

    def __call__(self, seq):
        self.n += 1
        seq = list(seq)
        if self.mode == "first":
            c = seq[0]
        elif self.mode == "last":
            c = seq[-1]
        else:
            c = seq[self.r.randrange(len(seq))]
        self.ctx.log(("choice", tuple(seq), c))
        return c


class Trace:
    pass


def classify_exception(exc):
    """'sut' if the innermost frame that is either ours or the repo's belongs to the repo, else 'harness'."""
    tb = traceback.extract_tb(exc.__traceback__)
    for fr in reversed(tb):
        fn = os.path.realpath(fr.filename)
        if fn.startswith("/verif/") or "/dsim/" in fn:
            return "harness"
        if sut.in_repo(fn):
            return "sut"
    return "harness"


def resume_json(ctx, party, mode, scratch):
    sim = ctx.sim
    pre = ctx.state_digest()
    if mode == "json_str":
        text = sim.to_json()
        sim2 = sut.Simulator.from_json(text)
    elif mode == "json_buf":
        buf = io.StringIO()
        sim.to_json(buf)
        buf.seek(0)
        sim2 = sut.Simulator.from_json(buf)
    elif mode == "json_file":
        path = os.path.join(scratch, "sim_%d.json" % len(ctx.events))
        sim.to_json(path)
        sim2 = sut.Simulator.from_json(path)
    elif mode == "json_pathlike":
        import pathlib
        path = pathlib.Path(scratch) / ("sim_%d.json" % len(ctx.events))     # an os.PathLike, not a str
        sim.to_json(path)
        sim2 = sut.Simulator.from_json(path)
    elif mode == "json_io_fault":
        # the disk fills up while the checkpoint is written (ENOSPC after k characters), the directory asked for does not exist;
        # the operator survives both and writes again - over a file that already holds a longer, older dump. A failed save
        # must leave the simulator as it was, and the save that succeeds must be complete.
        r = sub(ctx.sc["seed"], "iofault:%d" % len(ctx.events))
        n_fail = 0
        for k in (r.choice([0, 1, 7, 60, 300, 1500]), r.randrange(1, 4000)):
            fb = _FailingBuffer(k)
            try:
                sim.to_json(fb)
            except _DiskFull:
                n_fail += 1
            # (a dump shorter than k characters simply succeeds: nothing to survive)
        try:
            sim.to_json(os.path.join(scratch, "no", "such", "dir", "sim.json"))
        except OSError:
            n_fail += 1
        mid = ctx.state_digest()
        if mid != pre:
            ctx.io_fault_changed_state = True
        for _ in range(n_fail):
            ctx.fired("io_fault_survived")
        path = os.path.join(scratch, "sim over %d é.json" % len(ctx.events))
        with open(path, "w") as fh:
            fh.write("x" * r.choice([10, 200000]))
        sim.to_json(path)
        with open(path) as fh:                      # an open text handle instead of a path
            sim2 = sut.Simulator.from_json(fh)
    elif mode == "json_handle":
        # to_json(open file handle) ... from_json(open file handle); the handle is the caller's and stays open for more output
        path = os.path.join(scratch, "sim_%d.json" % len(ctx.events))
        with open(path, "w", encoding="utf-8") as fh:
            sim.to_json(fh)
            if fh.closed:
                ctx.handle_closed = True
        with open(path, encoding="utf-8") as fh:
            sim2 = sut.Simulator.from_json(fh)
    elif mode == "json_legacy_unplug":
        # a checkpoint in the layout of acnportal 0.2.2, which the loader still accepts: unplug events carry a station id and a
        # session id instead of a reference to the EV
        import json as _json
        d = _json.loads(sim.to_json())
        for v in d["context_dict"].values():
            if v["class"].endswith(".UnplugEvent") and "ev" in v["attributes"]:
                evd = d["context_dict"][v["attributes"].pop("ev")]["attributes"]
                v["attributes"]["station_id"] = evd["_station_id"]
                v["attributes"]["session_id"] = evd["_session_id"]
        sim2 = sut.Simulator.from_json(_json.dumps(d))
    elif mode == "json_twice":
        # checkpoint of a checkpoint: save, load, save the loaded object, load that
        sim1 = sut.Simulator.from_json(sim.to_json())
        sim2 = sut.Simulator.from_json(sim1.to_json())
    else:
        raise HarnessError(mode)
    ctx.sim = sim2
    post = ctx.state_digest()
    sim2.update_scheduler(party)
    return pre, post, sim


class _DiskFull(OSError):
    pass


class _FailingBuffer(io.StringIO):
    """A text stream that accepts k characters and then reports a full disk (errno ENOSPC) on every further write."""

    def __init__(self, k):
        super().__init__()
        self._left = k

    def write(self, s):
        if len(s) > self._left:
            super().write(s[:self._left])      # a short write, then the error
            self._left = 0
            import errno
            raise _DiskFull(errno.ENOSPC, "No space left on device")
        self._left -= len(s)
        return super().write(s)


def run_world(sc, observe=0, snapshot=True, setup=None, mutate_constraints=True, after_load=None):
    """Execute one world. Returns a Trace; never raises for SUT behaviour (recorded in tr.exc).
    sc['sim']['host_tz']: the machine's own time zone for the duration of the run (TZ + tzset, restored afterwards); simulation
    times are naive or carry their own zone, so nothing may depend on it."""
    host = sc.get("sim", {}).get("host_tz")
    if host and host != os.environ.get("TZ"):
        import time as _time
        old_tz = os.environ.get("TZ")
        os.environ["TZ"] = host
        _time.tzset()
        try:
            return _run_world(sc, observe, snapshot, setup, mutate_constraints, after_load)
        finally:
            if old_tz is None:
                os.environ.pop("TZ", None)
            else:
                os.environ["TZ"] = old_tz
            _time.tzset()
    return _run_world(sc, observe, snapshot, setup, mutate_constraints, after_load)


def _run_world(sc, observe=0, snapshot=True, setup=None, mutate_constraints=True, after_load=None):
    ctx = Ctx(sc, observe=observe, snapshot=snapshot, mutate_constraints=mutate_constraints)
    tr = Trace()
    tr.sc = sc
    tr.ctx = ctx
    tr.exc = None
    tr.exc_kind = None
    tr.rejections = []
    tr.resumes = []
    tr.refills = []
    tr.branches = []
    tr.terminal = None
    scratch = None
    saved_tap = _install_tap()
    noise = NoiseTape(sc, ctx)
    choice = ChoiceTape(sc, ctx)
    orig_normal = np.random.normal
    orig_choice = _random.choice
    np.random.normal = noise
    if sc["tapes"].get("choice") != "real":   # 'real': seam off, the library's own random.choice under random.seed
        _random.choice = choice
    _CUR[0] = ctx
    import contextlib
    sink = contextlib.redirect_stdout(io.StringIO()) if sc["sim"].get("verbose") else contextlib.nullcontext()
    try:
        with sink, warnings.catch_warnings(record=True) as wlist:
            warnings.simplefilter("always")
            party = Party(sc, ctx)
            tr.party = party
            # 'refill': the events at or after each cut time are handed to the simulator only after run() has returned (the
            # operator extends a finished simulation through the public event queue and calls run() again)
            cuts = valid_refill(sc)
            later = []
            refills = 0
            sl = sc.get("second_life")
            if sl and sc["network"]["kind"] == "custom":
                # first life: the same scenario, fault-free, run to completion; the second life (the one that is observed and
                # judged) re-uses the long-lived objects the scenario names: the network (vacated), the drained event queue
                # (refilled with add_events), the EV objects (after EV.reset()) and the algorithm object (re-registered)
                sc1 = dict(sc, faults=[], reconfig=[])
                sc1.pop("interventions", None)
                if sl.get("longer_first_life"):
                    # the earlier use of the re-used objects lasted longer than the present one (a recompute scheduled well after its last departure)
                    sc1["extra_events"] = list(sc["extra_events"]) + [{"type": "Recompute", "t": last_event_time(sc) + int(sl["longer_first_life"])}]
                if sl.get("first_perm") is not None and not sl.get("network"):
                    # the earlier run used a site whose stations were registered in another order (only the algorithm, queue or EV
                    # objects are carried over, not the network)
                    import copy as _copy1
                    sc1["network"] = _copy1.deepcopy(sc["network"])
                    _random.Random(int(sl["first_perm"])).shuffle(sc1["network"]["stations"])
                ctx1 = Ctx(sc1, observe=0, snapshot=False)
                party1 = Party(sc1, ctx1)
                sim1 = build_sim(sc1, party1)
                ctx1.sim = sim1
                _CUR[0] = ctx1
                try:
                    sim1.run()
                except StepCapExceeded as e:
                    tr.exc, tr.exc_kind, first_life_failed = e, "stepcap", True
                except HarnessError:
                    raise
                except Exception as e:
                    if classify_exception(e) == "harness":
                        raise
                    tr.exc, tr.exc_kind, first_life_failed = e, "sut", True
                else:
                    first_life_failed = False
                _CUR[0] = ctx
                if first_life_failed:
                    # the fault-free first life of the same scenario already failed: that is the run's outcome
                    ctx.sim = sim1
                    ctx.log(("first_life_failed", type(tr.exc).__name__))
                    raise _FirstLifeFailed()
                reuse_evs = None
                if sl.get("evs"):
                    reuse_evs = dict(sim1.ev_history)
                    for ev_ in reuse_evs.values():
                        ev_.reset()
                if sl.get("algo") and party1.inner is not None:
                    party.inner = party1.inner
                sim = build_sim(sc, party, network=sim1.network if sl.get("network") else None, reuse_evs=reuse_evs,
                                reuse_queue=sim1.event_queue if sl.get("queue") else None, later=later, cuts=cuts)
                ctx.fired("second_life")
            else:
                sim = build_sim(sc, party, later=later, cuts=cuts)
            ctx.sim = sim
            tr.sim0 = sim
            if sc["sim"].get("json_clone"):
                # 'equal inputs': the simulator is saved to JSON and loaded back before it ever runs
                sim = sut.Simulator.from_json(sim.to_json())
                sim.update_scheduler(party)
                ctx.sim = sim
                ctx.fired("json_clone")
            if sc["sim"].get("deepcopy_before_run"):
                # 'equal inputs': the judged simulation is a copy.deepcopy of the freshly built one (scheduler and all); the
                # original is never run
                import copy as _copy
                sim_c = _copy.deepcopy(ctx.sim)
                party_c = sim_c.scheduler
                party_c.ctx = ctx                    # the copy reports to this run's context
                party = party_c
                tr.party = party
                ctx.sim = sim_c
                ctx.fired("deepcopy_before_run")
            if setup is not None:
                setup(ctx, party)
            guard = 0
            while True:
                guard += 1
                if guard > 200:
                    raise HarnessError("resume loop guard")
                try:
                    ctx.sim.run()
                    if refills < len(cuts):
                        refills += 1
                        batch = [e for b_, e in later if b_ == refills]
                        ctx.log(("refill", ctx.sim.iteration, len(batch)))
                        ctx.fired("refill")
                        tr.refills.append({"t": ctx.sim.iteration, "cut": cuts[refills - 1], "n": len(batch)})
                        if batch:
                            ctx.sim.event_queue.add_events(batch)
                        continue
                    break
                except (SchedulerCrash, SchedulerInterrupt) as c:
                    mode = c.fault.get("resume", "rerun")
                    ctx.crash_interventions(ctx.sim.iteration)
                    nw_ = ctx.sim.network
                    if mode != "rerun" and hasattr(nw_, "waiting_queue") and (
                            len(nw_.waiting_queue) or nw_.early_departure or nw_.swaps or nw_.never_charged or nw_.early_unplug):
                        # the library itself warns that these StochasticNetwork attributes are not serialised: no JSON restart
                        # is demanded while they carry state (resume in memory instead)
                        mode = "rerun"
                        ctx.fired("json_resume_downgraded_stochastic_state")
                    if mode == "deepcopy_branch":
                        # what-if branch: a copy.deepcopy of the interrupted simulator is set aside (it is run to completion, on
                        # its own, after the original has finished); the original resumes in memory
                        if not cuts and not hasattr(nw_, "waiting_queue"):
                            import copy as _copy
                            br = _copy.deepcopy(ctx.sim)
                            br.scheduler.faults = {}
                            tr.branches.append({"sim": br, "t": ctx.sim.iteration, "hist_len": len(ctx.sim.event_history)})
                            ctx.fired("deepcopy_branch")
                        mode = "rerun"
                    ctx.log(("resume", mode, ctx.sim.iteration))
                    info = {"mode": mode, "t": ctx.sim.iteration, "queue_empty": ctx.sim.event_queue.empty()}
                    if mode != "rerun":
                        if scratch is None:
                            scratch = tempfile.mkdtemp(prefix="dsim-")
                        try:
                            pre, post, old = resume_json(ctx, party, mode, scratch)
                        except Exception as e:  # serialisation failed: SUT behaviour
                            tr.exc = e
                            tr.exc_kind = classify_exception(e)
                            tr.terminal = "json"
                            break
                        info["digest_pre"] = pre
                        info["digest_post"] = post
                        if after_load is not None:
                            after_load(ctx, old, ctx.sim, info)
                    ctx.fired("resume:" + mode)
                    tr.resumes.append(info)
                    continue
                except StepCapExceeded as e:
                    tr.exc = e
                    tr.exc_kind = "stepcap"
                    break
                except HarnessError:
                    raise
                except Exception as e:
                    last = party.calls[-1] if party.calls else None
                    kind = classify_exception(e)
                    if kind == "harness":
                        raise
                    if last is not None and last.get("malformed") and not last.get("handled"):
                        last["handled"] = True
                        ok_type = isinstance(e, (KeyError, sut.InvalidScheduleError))
                        tr.rejections.append({"t": last["t"], "how": last["malformed"], "exc": type(e).__name__,
                                              "ok_type": ok_type, "before": last["digest_before"],
                                              "after": ctx.state_digest()})
                        ctx.log(("rejected", last["t"], type(e).__name__))
                        last["completed"] = False
                        if ok_type:
                            continue
                    if last is not None and last.get("invalid") and not last.get("handled"):
                        last["handled"] = True
                        tr.terminal = "invalid_pilot"
                        tr.invalid = {"t": last["t"], "station": last["invalid"][0], "value": last["invalid"][1],
                                      "exc": type(e).__name__, "pre": last["pre_invalid"],
                                      "post": ctx.station_state(last["invalid"][0])}
                        ctx.log(("invalid_rejected", last["t"], type(e).__name__))
                        tr.exc = e
                        tr.exc_kind = "expected"
                        break
                    tr.exc = e
                    tr.exc_kind = kind
                    break
            # the branches run now, one after the other, each under its own (copied) context
            for b_ in tr.branches:
                if tr.exc is not None:
                    break
                b_["orig_hist_before"] = len(ctx.sim.event_history)
                bctx = b_["sim"].scheduler.ctx
                bctx.sim = b_["sim"]
                _CUR[0] = bctx
                try:
                    b_["sim"].run()
                    b_["exc"] = None
                except (StepCapExceeded, SchedulerCrash, SchedulerInterrupt) as e:
                    b_["exc"] = e
                except HarnessError:
                    raise
                except Exception as e:
                    if classify_exception(e) == "harness":
                        raise
                    b_["exc"] = e
                finally:
                    _CUR[0] = ctx
                b_["orig_hist_after"] = len(ctx.sim.event_history)
        tr.sim = ctx.sim
        tr.warnings = [(w.category.__name__, str(w.message)) for w in wlist]
    except _FirstLifeFailed:
        tr.sim = ctx.sim
        tr.warnings = []
    finally:
        _CUR[0] = None
        np.random.normal = orig_normal
        _random.choice = orig_choice
        _remove_tap(saved_tap)
        if scratch is not None:
            shutil.rmtree(scratch, ignore_errors=True)
    tr.calls = party.calls
    tr.periods = ctx.periods
    tr.fault_counts = dict(ctx.fault_counts)
    tr.noise_draws = noise.n
    tr.choice_draws = choice.n
    ctx.log(("end", tr.sim.iteration, None if tr.exc is None else type(tr.exc).__name__))
    tr.digest = digest([ctx.events, tr.sim.pilot_signals.tolist(), tr.sim.charging_rates.tolist()])
    return tr
