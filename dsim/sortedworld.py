"""Shared truth reconstruction for properties about the sorting-based algorithms (C07, C08, C10)."""
from .world import evse_levels, constraints_at


def station_index(sc):
    return {s["id"]: i for i, s in enumerate(sc["network"]["stations"])}


def cons_of(sc, t=None):
    """(coefficient row, limit) per constraint; with t, the constraints in force during period t (after reconfigurations)."""
    ids = [s["id"] for s in sc["network"]["stations"]]
    cl = sc["network"]["constraints"] if t is None else constraints_at(sc, t)
    return [([float(c["coeffs"].get(s, 0)) for s in ids], float(c["limit"])) for c in cl]


def max_pilot(e):
    if e["type"] == "Finite":
        return float(max(evse_levels(e)))
    return float("inf") if e["max"] is None else float(e["max"])


def min_pilot(e):
    """network.min_pilot_signals: smallest positive level for finite-rate EVSEs, min_rate for continuous, 0 for deadband."""
    if e["type"] == "Finite":
        pos = [a for a in evse_levels(e) if a > 0]
        return float(min(pos)) if pos else 0.0
    if e["type"] == "Deadband":
        return 0.0
    return float(e.get("min", 0))


def truth_sessions(sc, tr, t):
    """Connected, not-yet-satisfied sessions at the scheduler call of period t, from the scenario and the previous tap."""
    st = {s["id"]: s for s in sc["network"]["stations"]}
    idx = station_index(sc)
    prev = tr.periods[t - 1] if 0 < t <= len(tr.periods) else None
    delivered = {}
    if prev is not None:
        for sid, v in prev["st"].items():
            if v[0] is not None:
                delivered[v[0]] = v[2]
    period = sc["sim"]["period"]
    out = []
    for s in sc["sessions"]:
        if not (s["arrival"] <= t < s["departure"]):
            continue
        e = delivered.get(s["session_id"], 0.0) if s["arrival"] < t else 0.0
        rem = s["energy"] - e
        V = st[s["station"]]["voltage"]
        out.append(dict(session_id=s["session_id"], station=s["station"], i=idx[s["station"]], arrival=s.get("ev_arrival", s["arrival"]),
                        departure=s["departure"], est_departure=s.get("est_departure", s["departure"]), remaining=rem,
                        rem_ap=rem * 1000.0 / V * 60.0 / period, max_pilot=max_pilot(st[s["station"]]["evse"]),
                        min_pilot=min_pilot(st[s["station"]]["evse"]), voltage=V, evse=st[s["station"]]["evse"]))
    return out
