"""The scheduler party (seam S2): the second party of every simulated run.

It either *is* the algorithm (scripted) or wraps a real acnportal algorithm, records what it was shown and
what it answered, and executes the run's fault plan (crash, mutate, malformed, beyond_horizon, invalid_pilot).
All of its decisions are pure functions of (scenario, period), so a retried call after a crash answers alike.
"""
from . import sut
from .rng import sub
from .world import evse_levels, last_event_time

np = sut.np


class SchedulerCrash(Exception):
    def __init__(self, fault):
        super().__init__("injected scheduler crash %r" % (fault,))
        self.fault = fault


class SchedulerInterrupt(KeyboardInterrupt):
    """The run is interrupted from inside the scheduling algorithm by something that is not an Exception subclass (Ctrl-C while
    a solver runs, sys.exit() in a callback): an exception raised from the scheduler all the same."""

    def __init__(self, fault):
        super().__init__("injected interrupt %r" % (fault,))
        self.fault = fault


def crash_of(fault):
    return SchedulerInterrupt(fault) if fault.get("exc") == "interrupt" else SchedulerCrash(fault)


class StubEstimator(sut.UpperBoundEstimatorBase):
    """Upper-bound estimator with known per-session bounds (keyed by session id, as the base class documents)."""

    def __init__(self, bounds):
        super().__init__()
        self.bounds = dict(bounds)
        self.calls = 0

    def get_maximum_rates(self, sessions):
        self.calls += 1
        return {s.session_id: self.bounds[s.session_id] for s in sessions if s.session_id in self.bounds}


def stub_bounds(sc):
    out = {}
    for s in sc["sessions"]:
        r = sub(sc["seed"], "stubbound", s["session_id"])
        if r.random() < 0.8:
            out[s["session_id"]] = r.choice([0, 6, 8, 10, 12, 16, 20, round(r.uniform(1, 30), 2)])
    return out


def build_inner(sc):
    p = sc["party"]
    k = p["kind"]
    if k == "uncontrolled":
        return sut.UncontrolledCharging()
    if k in ("greedy", "rr"):
        est = None
        em = p.get("estimator", "none")
        if em == "rampdown":
            est = sut.SimpleRampdown()
        elif em == "stub":
            est = StubEstimator(stub_bounds(sc))
        kw = {}
        late = bool(p.get("estimate_late"))      # the estimator is handed over at construction, estimation is switched on later (public attribute)
        if est is not None:
            kw.update(estimate_max_rate=not late, max_rate_estimator=est)
        if p.get("uninterrupted", False):
            kw["uninterrupted_charging"] = True
        positional = sub(sc.get("seed", 0), "algo_call_form").random() < 0.25
        if k == "greedy":
            if positional:
                # arguments by position, in the released order (sort_fn, estimate_max_rate, max_rate_estimator, uninterrupted_charging)
                return sut.SortedSchedulingAlgo(sut.SORTS[p["sort"]], est is not None and not late, est, bool(p.get("uninterrupted", False)))
            return sut.SortedSchedulingAlgo(sut.SORTS[p["sort"]], **kw)
        if positional:
            # released order: (sort_fn, estimate_max_rate, max_rate_estimator, uninterrupted_charging, continuous_inc)
            return sut.RoundRobin(sut.SORTS[p["sort"]], est is not None and not late, est, bool(p.get("uninterrupted", False)), p.get("continuous_inc", 1))
        if p.get("continuous_inc", 1) != 0.1:         # (0.1 is the library's documented default: left implicit)
            kw["continuous_inc"] = p.get("continuous_inc", 1)
        return sut.RoundRobin(sut.SORTS[p["sort"]], **kw)
    return None


def valid_value(r, e):
    """A pilot the EVSE described by e accepts (chosen well inside or exactly on its set)."""
    t = e["type"]
    if t == "EVSE":
        mn = e.get("min", 0)
        mx = e["max"] if e["max"] is not None else 60
        opts = [mx, mn, round(r.uniform(mn, mx), r.choice([0, 1, 3])), r.uniform(mn, mx)]
        if mn <= 0:
            opts.append(0)
        v = r.choice(opts)
        return min(max(v, mn), mx)
    if t == "Deadband":
        end = e["deadband_end"]
        mx = e["max"] if e["max"] is not None else 60
        v = r.choice([0, 0, end, mx, r.uniform(end, mx), round(r.uniform(end, mx), 1)])
        return 0 if v == 0 else min(max(v, end), mx)
    return r.choice(evse_levels(e))


def invalid_value(r, e):
    """A pilot clearly (>= 2e-3, i.e. twice the tolerance) outside the EVSE's allowable set."""
    t = e["type"]
    d = r.choice([2e-3, 0.01, 0.5, 1.0, 7.0])
    if t == "EVSE":
        mn = e.get("min", 0)
        opts = [mn - 1e-3 - d, -1e-3 - d]
        if e["max"] is not None:
            opts.append(e["max"] + 1e-3 + d)
        return r.choice(opts)
    if t == "Deadband":
        end = e["deadband_end"]
        opts = [-1e-3 - d]
        if end > 4e-3 + 2 * d:
            opts += [1e-3 + d, end - 1e-3 - d, end / 2.0]
        if e["max"] is not None:
            opts.append(e["max"] + 1e-3 + d)
        return r.choice(opts)
    lv = evse_levels(e)
    opts = [lv[-1] + 1e-3 + d, -1e-3 - d]
    for a, b in zip(lv, lv[1:]):
        if b - a > 4e-3 + 2 * d:
            opts += [a + 1e-3 + d, b - 1e-3 - d, (a + b) / 2.0]
    return r.choice(opts)


def _cast(r, v):
    k = r.random()
    if float(v) == int(v) and k < 0.4:
        return int(v)
    if k < 0.6:
        return np.float64(v)
    return float(v)


def _container(r, row):
    k = r.random()
    if k < 0.6:
        return list(row)
    if k < 0.8:
        return tuple(row)
    return np.array(row)      # (rows are documented as lists of numbers; tuples and numpy arrays are what the library's own tests use)


class Party(sut.BaseAlgorithm):
    def __init__(self, sc, ctx):
        super().__init__()
        self.sc = sc
        self.ctx = ctx
        self.kind = sc["party"]["kind"]
        self.inner = build_inner(sc)
        self.max_recompute = sc["party"]["max_recompute"]
        if self.inner is not None and sc["party"].get("max_recompute") is not None:
            self.inner.max_recompute = sc["party"]["max_recompute"]
        self.ninv = 0
        self.calls = []
        self.faults = {f["at_call"]: f for f in sc.get("faults", [])}
        self.st = {s["id"]: s for s in sc["network"]["stations"]}
        self.order = [s["id"] for s in sc["network"]["stations"]]
        self.last_t = last_event_time(sc)
        from .world import event_times
        self.first_t = min(event_times(sc).keys())

    def register_interface(self, interface):
        self._interface = interface
        if self.inner is not None:
            self.inner.register_interface(interface)

    # ------------------------------------------------------------------ scripted answers
    def occupied(self, t):
        occ = {}
        for s in self.sc["sessions"]:
            if s["arrival"] <= t < s["departure"]:
                occ[s["station"]] = s["session_id"]
        return occ

    def script(self, t, force_len=None, nonempty=False):
        P = self.sc["party"]
        shift = P.get("time_shift", 0)
        if P.get("quiet_prefix") and t - shift < self.first_t - shift:
            return {}
        t0 = t
        t = t - shift          # the script is keyed by unshifted time (C10 shift pairs)
        r = sub(self.sc["seed"], "script", t)
        if not nonempty and r.random() < P.get("empty_prob", 0):
            return {}
        remaining = max(1, self.last_t - t0 + 1)
        mode = P.get("len_mode", "one")
        if mode == "mixed":
            mode = r.choice(["one", "few", "horizon"])
        L = {"one": 1, "few": r.randint(1, 5), "horizon": remaining if remaining * max(1, len(self.order)) <= 2500 else r.randint(1, 5)}[mode]   # (plans of thousands of cells are not scripted: cost)
        if force_len is not None:
            L = force_len
        sm = P.get("subset_mode", "all")
        ids = sorted(self.order)   # independent of registration order
        stoch = self.sc["network"]["kind"] == "stochastic"
        occ0 = self.occupied(t0) if not stoch else {i: None for i in ids}
        if sm == "occupied":
            ids = [i for i in ids if i in occ0] or ids[:1]
        elif sm == "random":
            k = r.randint(1, len(ids))
            ids = r.sample(ids, k)
        r.shuffle(ids)
        out = {}
        for i in ids:
            rv = sub(self.sc["seed"], "script", t, i)
            row = []
            for k in range(L):
                v = valid_value(rv, self.st[i]["evse"])
                if P.get("near_level_pilots") and self.st[i]["evse"]["type"] == "Finite" and rv.random() < P["near_level_pilots"]:
                    # accepted by the EVSE's 1e-3 A tolerance but not exactly on a level (kept non-negative)
                    v = max(0.0, v + rv.choice([-1, 1]) * rv.uniform(1e-4, 9e-4))
                if not P.get("vacant_pilots", True) and not stoch and i not in self.occupied(t0 + k):
                    v = 0
                row.append(_cast(rv, v))
            out[i] = _container(rv, row)
        return out

    # ------------------------------------------------------------------ observation
    def observe(self, iface, rec):
        lvl = self.ctx.observe
        if not lvl:
            return
        ss = iface.active_sessions()
        rec["sessions"] = [dict(station_id=s.station_id, session_id=s.session_id, requested_energy=s.requested_energy,
                                energy_delivered=s.energy_delivered, arrival=s.arrival, departure=s.departure,
                                estimated_departure=s.estimated_departure, current_time=s.current_time,
                                min0=float(s.min_rates[0]) if len(s.min_rates) else None,
                                max0=float(s.max_rates[0]) if len(s.max_rates) else None,
                                nrates=(len(s.min_rates), len(s.max_rates))) for s in ss]
        # derived per-session accessors of the interface (what a scheduler would call instead of doing the arithmetic itself)
        try:
            rec["rem_ap"] = [(s.session_id, s.station_id, float(iface.remaining_amp_periods(s))) for s in ss]
        except Exception as x_:          # recorded, judged by the property's oracle
            rec["rem_ap_error"] = "%s: %s" % (type(x_).__name__, str(x_)[:120])
        rec["now"] = iface.current_time
        rec["datetime"] = iface.current_datetime
        rec["period"] = iface.period
        rec["last_rate"] = {k: float(v) for k, v in iface.last_actual_charging_rate.items()}
        rec["last_pilots"] = {k: float(v) for k, v in iface.last_applied_pilot_signals.items()}
        rec["prev_peak"] = float(iface.get_prev_peak())
        if lvl >= 2:
            inf = iface.infrastructure_info()
            rec["infra"] = dict(
                constraint_matrix=None if inf.constraint_matrix is None else np.array(inf.constraint_matrix).tolist(),
                constraint_limits=np.array(inf.constraint_limits).tolist(),
                phases=np.array(inf.phases).tolist(), voltages=np.array(inf.voltages).tolist(),
                constraint_ids=list(inf.constraint_ids), station_ids=list(inf.station_ids),
                max_pilot=np.array(inf.max_pilot).tolist(), min_pilot=np.array(inf.min_pilot).tolist(),
                allowable=[np.array(a).tolist() for a in inf.allowable_pilots],
                is_continuous=[bool(x) for x in inf.is_continuous])
            rec["per_station"] = {}
            for i in self.order:
                al_ = iface.allowable_pilot_signals(i)
                rec["per_station"][i] = dict(max=float(iface.max_pilot_signal(i)), min=float(iface.min_pilot_signal(i)),
                                             allow=(al_[0], [float(x) for x in al_[1]]), volt=float(iface.evse_voltage(i)),
                                             phase=float(iface.evse_phase(i)))
                # (the scheduler converts the list it was given to kW for its own report: the list is its own)
                try:
                    al_[1][:] = [float(x) * 0.208 for x in al_[1]]
                    al_[1].append(-1.0)
                except (TypeError, AttributeError, ValueError):
                    pass

    def mutate_handed(self, iface, handed_sessions):
        """Scribble over everything the interface handed out (C05 isolation)."""
        objs = list(handed_sessions) + list(iface.active_sessions())
        for s in objs:
            s.station_id = "JUNK"
            s.session_id = "JUNK"
            s.requested_energy = -1.0
            s.energy_delivered = 1e9
            s.arrival = -5
            s.departure = 10 ** 6
            s.estimated_departure = -7
            s.current_time = 12345
            try:
                s.min_rates[:] = 99.0
                s.max_rates[:] = -99.0
            except Exception:
                pass
        # EV objects handed out by the (deprecated but public) active_evs accessor: a look-ahead scheduler may well
        # 'charge' its copies to predict the battery response
        import warnings as _w
        with _w.catch_warnings():
            _w.simplefilter("ignore")
            evs = list(iface.active_evs)
        tape = np.random.normal      # the run's noise tape belongs to the environment: a look-ahead must not advance it
        np.random.normal = lambda loc=0.0, scale=1.0, size=None: loc
        try:
            for ev in evs:
                try:
                    ev.charge(16.0, 208.0, 5.0)
                    ev.update_station_id("JUNK")
                except Exception:
                    pass
        finally:
            np.random.normal = tape
        handed = [iface.infrastructure_info()]
        if self.ctx.mutate_constraints:
            handed.append(iface.get_constraints())
        for inf in handed:
            for name in ("constraint_matrix", "constraint_limits", "magnitudes", "phases", "voltages", "max_pilot",
                         "min_pilot", "is_continuous"):
                a = getattr(inf, name, None)
                if isinstance(a, np.ndarray) and a.size and a.flags.writeable:
                    a[...] = (False if a.dtype == bool else -999)
            for name in ("constraint_ids", "constraint_index", "station_ids", "evse_index"):
                a = getattr(inf, name, None)
                if isinstance(a, list):
                    a.append("JUNK")
                    if len(a) > 1:
                        a[0] = "JUNK0"
            ap = getattr(inf, "allowable_pilots", None)
            if ap is not None:
                for a in ap:
                    if isinstance(a, np.ndarray) and a.size and a.flags.writeable:
                        a[...] = -1
                ap.append(np.array([1, 2, 3]))
            d = getattr(inf, "_station_ids_dict", None)
            if isinstance(d, dict):
                d["JUNK"] = 99

    # ------------------------------------------------------------------ the call
    def run(self):
        iface = self.interface
        ctx = self.ctx
        self.ninv += 1
        t = iface.current_time
        fault = self.faults.get(self.ninv)
        fk = fault["kind"] if fault else None
        rec = {"t": t, "inv": self.ninv, "fault": fk, "completed": False}
        self.calls.append(rec)
        ctx.log(("invoke", t, fk))
        rt_ = self.sc["party"].get("retune")
        if rt_ and self.inner is not None and self.ninv >= rt_["at_call"] and not getattr(self, "_retuned", False):
            # the operator re-tunes the algorithm object between two calls through its public attributes
            for k_, v_ in rt_["set"].items():
                setattr(self.inner, k_, v_)
            self._retuned = True
            ctx.fired("algorithm_retuned")
        if self.inner is not None:
            rec["opts"] = {k_: getattr(self.inner, k_) for k_ in ("continuous_inc", "estimate_max_rate", "uninterrupted_charging") if hasattr(self.inner, k_)}
        if fk == "crash" and fault.get("when", "before") == "before":
            ctx.fired("crash")
            rec["crashed"] = True
            raise crash_of(fault)
        handed = None
        if fk in ("mutate", "mutate_crash") or ctx.observe:
            self.observe(iface, rec)
        for hook in ctx.pre_hooks:
            hook(self, iface, rec)
        if self.inner is not None:
            if fk in ("mutate", "mutate_crash"):
                handed = iface.active_sessions()
                sched = self.inner.schedule(handed)
            else:
                sched = self.inner.run()
        else:
            sched = self.script(t)
            handed = []
        for hook in ctx.post_hooks:
            hook(self, iface, rec, sched)
        if fk == "mutate":
            ctx.fired("mutate")
            rec["digest_before_mutation"] = ctx.state_digest()
            self.mutate_handed(iface, handed or [])
            rec["digest_after_mutation"] = ctx.state_digest()
        elif fk == "mutate_crash":
            # the algorithm scribbled over its copies and then failed: the retried call must be shown the true state again
            rec["digest_before_mutation"] = ctx.state_digest()
            self.mutate_handed(iface, handed or [])
            rec["digest_after_mutation"] = ctx.state_digest()
            ctx.fired("mutate_crash")
            rec["crashed"] = True
            raise crash_of(fault)
        elif fk == "beyond_horizon":
            width = ctx.sim.pilot_signals.shape[1]
            L = max(1, width - t) + fault["extra_len"]
            sched = self.script(t, force_len=L, nonempty=True)
            rec["beyond"] = (width, L)
            ctx.fired("beyond_horizon")
        elif fk == "malformed":
            sched = dict(self.script(t, nonempty=True))
            how = fault["how"]
            var = fault.get("variant", "plus1")
            if how == "ragged" and var in ("one_short", "first_long_rest_one"):
                sched = dict(self.script(t, force_len=2 + fault["at_call"] % 3, nonempty=True))
            if how == "ragged" and len(sched) >= 2:
                keys = list(sched.keys())
                if var == "one_short":            # one row (not the first of the mapping) holds a single value
                    sched[keys[-1]] = [list(sched[keys[-1]])[0]]
                elif var == "first_long_rest_one":   # the mapping's first row has the full length, every other row one value
                    for k_ in keys[1:]:
                        sched[k_] = [list(sched[k_])[0]]
                elif var == "last_long":
                    sched[keys[-1]] = list(sched[keys[-1]]) + [0]
                elif var == "empty_row":
                    sched[keys[-1]] = []
                else:
                    k0 = sorted(keys)[0]
                    sched[k0] = list(sched[k0]) + [0]
            else:
                how = "unknown_station"
                L = len(next(iter(sched.values())))
                rw_ = sub(self.sc["seed"], "unknown_id", fault["at_call"])
                ghost = "NO-SUCH-STATION"
                if rw_.random() < 0.4:
                    # an id that differs from a registered one only by surrounding whitespace / letter case: still not a station
                    base_ = rw_.choice(sorted(self.order))
                    cand_ = rw_.choice([base_ + " ", " " + base_, base_ + "\n", base_.lower(), base_.upper(), base_ + "\t"])
                    if cand_ not in self.order:
                        ghost = cand_
                sched[ghost] = [rw_.choice([0, 6, 16])] * L
            rec["malformed"] = how
            rec["digest_before"] = ctx.state_digest()
            ctx.fired("malformed:" + how)
        elif fk == "future_invalid":
            # a plan of several periods whose LATER columns hold a pilot the EVSE would refuse; the plan is replaced at the next
            # period (this party is asked every period and then names every station), so that pilot never comes into force
            P_ = self.sc["party"]
            if P_.get("max_recompute") == 1 and P_.get("subset_mode", "all") == "all" and not P_.get("empty_prob"):
                r = sub(self.sc["seed"], "future_invalid", fault["pick"])
                L_ = r.randint(2, 4)
                sched = dict(self.script(t, force_len=L_, nonempty=True))
                sid = r.choice(sorted(sched.keys()))
                row_ = [float(x) for x in sched[sid]]
                row_[r.randint(1, L_ - 1)] = invalid_value(r, self.st[sid]["evse"])
                sched[sid] = row_
                rec["future_invalid"] = sid
                ctx.fired("future_invalid")
        elif fk == "invalid_pilot":
            r = sub(self.sc["seed"], "invalid", fault["pick"])
            sid = r.choice(self.order)
            v = invalid_value(r, self.st[sid]["evse"])
            sched = dict(self.script(t, force_len=1, nonempty=True))
            sched[sid] = [v]
            rec["invalid"] = (sid, v)
            rec["pre_invalid"] = ctx.station_state(sid)
            ctx.fired("invalid_pilot")
        if fk == "crash":
            ctx.fired("crash")
            rec["crashed"] = True
            raise crash_of(fault)
        if self.sc["party"].get("reverse_keys") and isinstance(sched, dict):
            sched = dict(reversed(list(sched.items())))
        rec["schedule"] = {k: [float(x) for x in v] for k, v in sched.items()}
        rec["key_order"] = list(sched.keys())
        if self.sc["party"].get("reuse_mapping") and self.inner is None and fk != "malformed" and type(sched) is dict:
            # the scheduler keeps ONE mapping object and refills it in place at every call
            if not hasattr(self, "_one_mapping"):
                self._one_mapping = {}
            self._one_mapping.clear()
            self._one_mapping.update(sched)
            sched = self._one_mapping
        mt = self.sc["party"].get("mapping_type", "dict")
        if mt != "dict" and self.inner is None and fk != "malformed" and type(sched) is dict:
            # the mapping handed to the simulator is a dict subclass; stations it omits are omitted (no default is to be conjured up)
            import collections
            if mt == "ordered":
                sched = collections.OrderedDict(sched)
            elif mt == "defaultdict_list":
                sched = collections.defaultdict(list, sched)
            else:
                L_ = len(next(iter(sched.values()))) if sched else 1
                sched = collections.defaultdict(lambda: [6.0] * L_, sched)
        rec["completed"] = True
        return sched

    def schedule(self, active_sessions):  # pragma: no cover - run() is overridden
        raise NotImplementedError
