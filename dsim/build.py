"""scenario JSON -> real acnportal objects. The only place that calls the SUT constructors for worlds."""
import contextlib
import os
from datetime import datetime

from . import sut
from .rng import sub


class LoggingEVSE(sut.EVSE):
    """User extension through the documented extension point: an EVSE subclass whose overrides do some bookkeeping of their
    own and delegate to the base class (written against the documented 'Returns: None' of plugin / unplug / set_pilot)."""

    def plugin(self, ev):
        super().plugin(ev)

    def unplug(self):
        super().unplug()

    def set_pilot(self, pilot, voltage, period):
        super().set_pilot(pilot, voltage, period)


@contextlib.contextmanager
def hostile_cwd(name):
    """Environment fault: the process's working directory holds files named like the bundled tariff files (an experimenter's
    own copies with other rates), directly and under ./tariff_schedules. A bundled tariff name must still mean the bundled file."""
    import json
    import shutil
    import tempfile
    old = os.getcwd()
    d = tempfile.mkdtemp(prefix="acn-cwd.")
    try:
        doc = {"name": name, "effective": "1999-1-1", "schedule": [
            {"id": "shadow", "effective_start": "01-01", "effective_end": "12-31", "dow_mask": "ALL", "times": [0],
             "tariffs": [9.99], "demand_charge": 99.0}]}
        for sub_ in ("", "tariff_schedules", "tariffs", os.path.join("signals", "tariffs", "tariff_schedules")):
            os.makedirs(os.path.join(d, sub_), exist_ok=True)
            with open(os.path.join(d, sub_, name + ".json"), "w") as f:
                json.dump(doc, f)
        os.chdir(d)
        yield d
    finally:
        os.chdir(old)
        shutil.rmtree(d, ignore_errors=True)


def _kw(**pairs):
    """Keyword arguments for the SUT constructors with every value that equals the documented default left out: callers that
    rely on a default are part of the population (a changed default must show)."""
    out = {}
    for k, (v, default) in pairs.items():
        if not (type(v) is type(default) and v == default):
            out[k] = v
    return out


def build_evse(sid, e):
    # e["pos"]: constructor arguments passed by position, in the released order
    if e["type"] == "EVSE":
        mx = float("inf") if e["max"] is None else e["max"]
        cls = LoggingEVSE if e.get("sub") else sut.EVSE
        if e.get("pos"):
            return cls(sid, mx, e.get("min", 0))
        return cls(sid, **_kw(max_rate=(mx, float("inf")), min_rate=(e.get("min", 0), 0)))
    if e["type"] == "Deadband":
        mx = float("inf") if e["max"] is None else e["max"]
        if e.get("pos"):
            return sut.DeadbandEVSE(sid, e["deadband_end"], mx)
        return sut.DeadbandEVSE(sid, deadband_end=e["deadband_end"], max_rate=mx)
    if e["type"] == "Finite":
        return sut.FiniteRatesEVSE(sid, list(e["rates"]))
    raise ValueError(e)


class LoggingInterface(sut.Interface):
    """User extension: Simulator(interface_type=...) with a subclass of Interface that adds nothing."""


class LoggingBattery(sut.Battery):
    """User extension: a Battery subclass whose overrides delegate to the base class."""

    def charge(self, pilot, voltage, period):
        return super().charge(pilot, voltage, period)

    def reset(self, init_charge=None):
        return super().reset(init_charge)


class LoggingLinear2StageBattery(sut.Linear2StageBattery):
    """User extension: a Linear2StageBattery subclass whose overrides delegate to the base class."""

    def charge(self, pilot, voltage, period):
        return super().charge(pilot, voltage, period)

    def reset(self, init_charge=None):
        return super().reset(init_charge)


def build_battery(b):
    if b["type"] == "Battery":
        return (LoggingBattery if b.get("sub") else sut.Battery)(b["capacity"], b["init"], b["max_power"])
    return (LoggingLinear2StageBattery if b.get("sub") else sut.Linear2StageBattery)(
        b["capacity"], b["init"], b["max_power"],
        **_kw(noise_level=(b.get("noise", 0), 0), transition_soc=(b.get("transition_soc", 0.8), 0.8),
              charge_calculation=(b.get("calc", "continuous"), "continuous")))


def build_network(net):
    if net["kind"] == "stochastic":
        from acnportal.contrib.acnsim.network.stochastic_network import StochasticNetwork
        kw_ = _kw(violation_tolerance=(net["violation_tolerance"], 1e-5), relative_tolerance=(net["relative_tolerance"], 1e-7),
                  early_departure=(net.get("early_departure", False), False))
        if net.get("np_scalars"):
            # parameters that come out of a numpy / pandas parameter sweep: numpy scalars, numpy booleans
            kw_ = {k_: (sut.np.bool_(v_) if isinstance(v_, bool) else sut.np.float64(v_)) for k_, v_ in kw_.items()}
        if net.get("positional"):
            # the released positional order of the constructor: (violation_tolerance, relative_tolerance, early_departure)
            order_ = ["violation_tolerance", "relative_tolerance", "early_departure"]
            full_ = {"violation_tolerance": net["violation_tolerance"], "relative_tolerance": net["relative_tolerance"],
                     "early_departure": net.get("early_departure", False)}
            if net.get("np_scalars"):
                full_ = {k_: (sut.np.bool_(v_) if isinstance(v_, bool) else sut.np.float64(v_)) for k_, v_ in full_.items()}
            nw = StochasticNetwork(*[full_[k_] for k_ in order_])
        else:
            nw = StochasticNetwork(**kw_)
    elif net["kind"] == "custom":
        if net.get("positional"):
            nw = sut.ChargingNetwork(net["violation_tolerance"], net["relative_tolerance"])      # released positional order
        else:
            nw = sut.ChargingNetwork(**_kw(violation_tolerance=(net["violation_tolerance"], 1e-5),
                                           relative_tolerance=(net["relative_tolerance"], 1e-7)))
    elif net["kind"] in ("caltech", "jpl", "office001"):
        from acnportal.acnsim.network import sites
        f = {"caltech": sites.caltech_acn, "jpl": sites.jpl_acn, "office001": sites.office001_acn}[net["kind"]]
        if net.get("site_alias") and net["kind"] == "caltech":
            # the older spelling of the Caltech factory, kept by the library for backward compatibility (it prints a notice)
            import contextlib
            import io
            with contextlib.redirect_stdout(io.StringIO()):
                return sites.CaltechACN(**net.get("site_kwargs", {}))
        return f(**net.get("site_kwargs", {}))
    else:
        raise ValueError(net["kind"])
    for k, s in enumerate(net["stations"]):
        nw.register_evse(build_evse(s["id"], s["evse"]), s["voltage"], s["phase"])
        if k == net.get("query_after_first_registrations", -1) and hasattr(nw, "available_evses"):
            nw.available_evses()      # the operator looks at the free spaces while the site is still being set up
    draft = net.get("draft")
    for k, c in enumerate(net["constraints"]):
        if draft is not None and k == draft["at"]:
            nw.add_constraint(sut.Current(dict(draft["coeffs"])), draft["limit"], name=draft["name"])
        if draft is not None and k == len(net["constraints"]) - 1:
            # the operator's draft limit is withdrawn before the last (surveyed) limit is entered
            nw.remove_constraint(draft["name"])
        # terms listed in the constraint's own (generated) order, not station order
        if c.get("unnamed"):
            nw.add_constraint(sut.Current(dict(c["coeffs"])), c["limit"])     # the network names it itself
        else:
            nw.add_constraint(sut.Current(dict(c["coeffs"])), c["limit"], name=c["name"])
    return nw


def build_ev(s, np_scalars=False, battery=None):
    # ev_arrival: the vehicle's own record says it arrived before the period of its plug-in event (it was on site before the
    # simulated window / its plug-in was queued late); the plug-in event stays at s["arrival"]
    a, d, e = s.get("ev_arrival", s["arrival"]), s["departure"], s["energy"]
    if np_scalars:
        # values that come out of numpy / pandas pipelines (generate_events, DataFrames): numpy scalars instead of Python numbers
        a, d, e = sut.np.int64(a), sut.np.int64(d), sut.np.float64(e)
    cls = ContentAtEV if s.get("content_at") is not None else sut.EV
    ev = cls(a, d, e, s["station"], s["session_id"], battery if battery is not None else build_battery(s["battery"]),
             **_kw(estimated_departure=(s.get("est_departure"), None)))
    if s.get("content_at") is not None:
        ev.content_at = float(s["content_at"])
    return ev


class ContentAtEV(sut.EV):
    """User extension: a driver who is content with a fraction of the requested energy. `fully_charged` (the public property that
    says whether the EV's demand has been met) is overridden accordingly; nothing else changes."""
    content_at = 1.0

    @property
    def fully_charged(self):
        return self.energy_delivered >= self.content_at * self.requested_energy - 1e-3


class TaggedPluginEvent(sut.PluginEvent):
    """User extension through the documented extension point (a subclass of a built-in event type); adds nothing."""


class TaggedRecomputeEvent(sut.RecomputeEvent):
    """User extension: a subclass of RecomputeEvent; adds nothing."""


def build_events(sc, reuse_evs=None, reuse_queue=None, later=None, cuts=()):
    """reuse_evs: {session_id: EV object of an earlier simulation, already reset()}; reuse_queue: a drained EventQueue.
    later/cuts: events at or after the first cut time are not loaded into the queue but appended to `later` as
    (batch index, event): the operator adds batch b after run() has returned for the b-th time (driver.run_world)."""
    evs = []
    shared_batt = {}
    for s in sc["sessions"]:
        batt_ = None
        if s.get("battery_of") is not None and not reuse_evs:
            # the same car comes twice: both EV objects are given the very same Battery object (the second visit starts from
            # whatever state of charge the first one left)
            if s["battery_of"] not in shared_batt:
                shared_batt[s["battery_of"]] = build_battery(s["battery"])
            batt_ = shared_batt[s["battery_of"]]
        late_dep = s.get("departure_set_late") and not (reuse_evs or {}).get(s["session_id"])
        ev = (reuse_evs or {}).get(s["session_id"]) or build_ev(dict(s, departure=s["departure"] + late_dep) if late_dep else s,
                                                                    np_scalars=bool(sc["sim"].get("np_scalars")), battery=batt_)
        cls = TaggedPluginEvent if s.get("ev_sub") else sut.PluginEvent
        evs.append(cls(s["arrival"], ev))
        if late_dep:
            # the stay is clipped through the EV's public setter AFTER its plug-in event exists (as one does with a generated queue)
            ev.departure = s["departure"]
            if s.get("est_departure") is None:
                ev.estimated_departure = s["departure"]
    for e in sc["extra_events"]:
        if e.get("type") == "Event":
            evs.append(sut.Event(e["t"]))
        else:
            evs.append((TaggedRecomputeEvent if e.get("sub") else sut.RecomputeEvent)(e["t"]))
    dp = sc.get("dup_plugin")
    if dp:
        s0 = next(s for s in sc["sessions"] if s["session_id"] == dp["session_id"] and s["station"] == dp["station"])
        evs.append(sut.PluginEvent(dp["t"], build_ev(s0)))     # invalid input: must be refused (or change nothing)
    sub(sc["sim"].get("shuffle_events", 0), "evshuffle").shuffle(evs)
    cuts = sorted(cuts or ())
    if later is not None and cuts:
        now = []
        for e in evs:
            b = sum(1 for c in cuts if e.timestamp >= c)
            if b == 0:
                now.append(e)
            else:
                later.append((b, e))
        evs = now
    if reuse_queue is not None:
        reuse_queue.add_events(evs)
        return reuse_queue
    return sut.EventQueue(evs)


def build_start(sim):
    y, mo, d, h, mi = sim["start"][:5]
    sec, us = (list(sim["start"][5:]) + [0, 0])[:2]
    tz = sim.get("start_tz")
    if tz:
        # an aware start instant, the way the library's tutorials build it: pytz zone .localize(naive wall time)
        import pytz
        return pytz.timezone(tz).localize(datetime(y, mo, d, h, mi, sec, us))
    return datetime(y, mo, d, h, mi, sec, us)


def build_signals(sim):
    sg = sim.get("signals", "none")
    if sg in (None, "none"):
        return None
    if sg == "dict":
        return {"note": "json-able", "k": [1, 2, 3]}
    if isinstance(sg, str) and sg.startswith("tariff:"):
        from acnportal.signals.tariffs.tou_tariff import TimeOfUseTariff
        with hostile_cwd(sg.split(":", 1)[1]):
            return {"tariff": TimeOfUseTariff(sg.split(":", 1)[1])}
    raise ValueError(sg)


def build_sim(sc, party, network=None, reuse_evs=None, reuse_queue=None, later=None, cuts=()):
    nw = network if network is not None else build_network(sc["network"])
    q = build_events(sc, reuse_evs, reuse_queue, later=later, cuts=cuts)
    first = party
    if "built_with_max_recompute" in sc["sim"]:
        # the simulator is constructed with some other scheduler (its own recompute interval) and the party is swapped in
        # with update_scheduler() before the run: from then on only the party's interval counts
        class _Placeholder(sut.BaseAlgorithm):
            def schedule(self, active_sessions):
                return {}
        first = _Placeholder()
        first.max_recompute = sc["sim"]["built_with_max_recompute"]
    kw = {}
    if sc["sim"].get("iface_sub"):
        kw["interface_type"] = LoggingInterface
    per = sc["sim"]["period"]
    if sc["sim"].get("np_scalars"):
        per = sut.np.float64(per)
    kw.update(_kw(period=(per, 1), signals=(build_signals(sc["sim"]), None),
                  store_schedule_history=(bool(sc["sim"].get("store_schedule_history", False)), False)))
    late = None
    if sc["sim"].get("late_fill") and reuse_queue is None:
        # the caller creates the (still empty) queue first, hands it to the Simulator and fills it afterwards through the reference
        # it kept - the simulator was given THAT queue
        late = [e for _, e in q.queue]
        q = sut.EventQueue()
    sim = sut.Simulator(nw, first, q, build_start(sc["sim"]), verbose=bool(sc["sim"].get("verbose", False)), **kw)
    if late is not None:
        q.add_events(late)
    if first is not party:
        sim.update_scheduler(party)
    return sim
