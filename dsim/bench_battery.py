"""Battery bench: a seeded sequence of charge()/reset() calls on one real battery, noise tape owned by the run."""
import copy
from . import sut
from .rng import sub
from .build import build_battery

np = sut.np


def gen_bench(rs, noise_allowed=True, tier="quick"):
    r = sub(rs, "bench")
    kind = r.choice(["ideal", "l2c", "l2c", "l2c", "l2s", "l2s"])
    cap = r.choice([round(r.uniform(0.01, 1), 4), round(r.uniform(1, 100), 3), round(r.uniform(20, 200), 2), 8, 24, 40, 60, 85, 100])
    frac = r.choice([0.0, 1.0, r.uniform(0, 1), r.uniform(0.7, 1.0), r.uniform(0.95, 1.0)])
    init = round(cap * frac, 8)
    if init > cap:
        init = cap
    max_power = round(r.choice([r.uniform(0.2, 3), r.uniform(3, 12), r.uniform(12, 60), 6.656, 7.68]), 4)
    b = {"type": "Battery", "capacity": cap, "init": init, "max_power": max_power}
    if kind != "ideal":
        b["type"] = "Linear2Stage"
        b["transition_soc"] = r.choice([0.8, 0.8, 0.0, 0.5, 0.999, 0.9, round(r.uniform(0, 0.999), 4)])
        b["calc"] = "continuous" if kind == "l2c" else "stepwise"
        b["noise"] = (round(r.choice([r.uniform(0.01, 0.3), r.uniform(0.3, 3.0)]), 4) if (noise_allowed and r.random() < 0.6) else 0)
    V = r.choice([120, 208, 208, 240, 277])
    period = r.choice([1, 5, 5, 7.5, 15, 60, 60, 90, 120, 240])
    pmax = max_power * 1000.0 / V
    n = r.randint(1, 200 if tier == "thorough" else 60)
    ops = []
    mode = r.choice(["const", "random", "random", "ramp", "bang"])
    base = r.uniform(0.05, 2.0) * pmax
    for i in range(n):
        k = r.random()
        if k < 0.03:
            ops.append({"op": "reset"})
            continue
        if k < 0.045:
            ops.append({"op": "reset_to", "frac": r.choice([0.0, 1.0, r.uniform(0, 1)])})
            continue
        if k < 0.08 and k >= 0.07:
            # an operation that is refused: reset to more than the capacity (ValueError); the caller carries on with the battery
            ops.append({"op": "reset_refused", "frac": r.choice([1.0001, 1.1, 2.0])})
            continue
        if kind != "ideal" and sub(rs, "switch_calc", i).random() < 0.03:
            ops.append({"op": "switch_calc"})     # the owner switches the two-stage battery's public charge_calculation attribute
            continue
        if k < 0.07:
            ops.append({"op": "roundtrip"})      # restart: the battery is saved to JSON and loaded; the sequence continues on the copy
            continue
        if mode == "const":
            p = base
        elif mode == "ramp":
            p = base * (i + 1) / n
        elif mode == "bang":
            p = r.choice([0, base, 10 * pmax])
        else:
            p = r.choice([0, 1e-9, 1e-3, r.uniform(0, pmax), r.uniform(0, 2 * pmax), pmax, 10 * pmax, r.choice([6, 8, 16, 32])])
        ops.append({"op": "charge", "pilot": p, "period": period if r.random() < 0.9 else r.choice([1, 5, 15, 60, 120])})
        rv = sub(rs, "op_voltage", i)
        if rv.random() < 0.07:
            # the car is moved to a station of another supply voltage (same battery object, same period length)
            ops[-1]["voltage"] = rv.choice([x_ for x_ in (120, 208, 240, 277, 400) if x_ != V])
    tape = r.choice(["prng", "zeros", "extreme", "alt"])
    return {"seed": rs, "battery": b, "voltage": V, "ops": ops, "tapes": {"noise": tape}}


class Tape:
    def __init__(self, sc):
        self.mode = sc["tapes"]["noise"]
        self.r = sub(sc["seed"], "noise")
        self.n = 0

    def __call__(self, loc=0.0, scale=1.0, size=None):
        self.n += 1
        m = self.mode
        if m == "zeros":
            z = 0.0
        elif m == "extreme":
            z = 6.0 if self.r.random() < 0.5 else -6.0
        elif m == "alt":
            z = 3.0 if self.n % 2 else -3.0
        else:
            z = self.r.gauss(0, 1)
        return loc + scale * z


def run_bench(sc, on_call):
    """Drive the real battery. on_call(i, op, pre, post, rate, batt) -> None; pre/post = (charge, power)."""
    tape = Tape(sc)
    orig = np.random.normal
    np.random.normal = tape
    try:
        batt = build_battery(sc["battery"])
        init_json = None
        for i, op in enumerate(sc["ops"]):
            pre = (float(batt._current_charge), float(batt.current_charging_power))
            if op["op"] == "reset_to":
                batt.reset(sc["battery"]["capacity"] * op["frac"])
                on_call(i, op, pre, (float(batt._current_charge), float(batt.current_charging_power)), None, batt)
                continue
            if op["op"] == "reset_refused":
                try:
                    batt.reset(sc["battery"]["capacity"] * op["frac"])
                    refused = False
                except ValueError:
                    refused = True
                on_call(i, dict(op, refused=refused), pre, (float(batt._current_charge), float(batt.current_charging_power)), None, batt)
                continue
            if op["op"] == "roundtrip":
                batt = type(batt).from_json(batt.to_json())
                on_call(i, op, pre, (float(batt._current_charge), float(batt.current_charging_power)), None, batt)
                continue
            if op["op"] == "switch_calc":
                if hasattr(batt, "charge_calculation"):
                    batt.charge_calculation = "stepwise" if batt.charge_calculation == "continuous" else "continuous"
                on_call(i, op, pre, (float(batt._current_charge), float(batt.current_charging_power)), None, batt)
                continue
            if op["op"] == "reset":
                batt.reset()
                on_call(i, op, pre, (float(batt._current_charge), float(batt.current_charging_power)), None, batt)
                continue
            rate = batt.charge(op["pilot"], op.get("voltage", sc["voltage"]), op["period"])
            post = (float(batt._current_charge), float(batt.current_charging_power))
            on_call(i, op, pre, post, float(rate), batt)
    finally:
        np.random.normal = orig
    return tape.n


def clone_battery(batt):
    return copy.deepcopy(batt)
