"""dsim: deterministic simulation with fault injection for acnportal (see /verif/DESIGN.md)."""
