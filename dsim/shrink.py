"""Structural minimisation candidates for world scenarios (each candidate is a simpler scenario)."""
import copy


def _clone(sc):
    return copy.deepcopy(sc)


def world_candidates(sc):
    # 1. faults: all-but-one, then one by one
    fs = sc.get("faults", [])
    if len(fs) > 1:
        for i in range(len(fs)):
            c = _clone(sc)
            c["faults"] = [fs[i]]
            yield c
    for i in range(len(fs)):
        c = _clone(sc)
        del c["faults"][i]
        yield c
    if sc.get("second_life"):
        c = _clone(sc)
        del c["second_life"]
        yield c
        for k in ("network", "queue", "evs", "algo"):
            if sc["second_life"].get(k):
                c = _clone(sc)
                c["second_life"][k] = False
                yield c
    for i in range(len(sc.get("reconfig", []))):
        c = _clone(sc)
        del c["reconfig"][i]
        yield c
    # 2. sessions: halves, then singles
    ss = sc.get("sessions", [])
    if len(ss) > 3:
        h = len(ss) // 2
        for part in (ss[:h], ss[h:]):
            c = _clone(sc)
            c["sessions"] = copy.deepcopy(part)
            yield c
    if len(ss) > 1:
        for i in range(len(ss)):
            c = _clone(sc)
            del c["sessions"][i]
            yield c
    # 3. extra events
    for i in range(len(sc.get("extra_events", []))):
        c = _clone(sc)
        del c["extra_events"][i]
        yield c
    # 4. constraints
    cons = sc["network"].get("constraints", [])
    if len(cons) > 1:
        c = _clone(sc)
        c["network"]["constraints"] = []
        c.pop("reconfig", None)
        yield c
    for i in range(len(cons)):
        c = _clone(sc)
        nm = c["network"]["constraints"][i]["name"]
        del c["network"]["constraints"][i]
        if "reconfig" in c:
            c["reconfig"] = [r for r in c["reconfig"] if r["name"] != nm]
        yield c
    # 5. stations without sessions
    used = {s["station"] for s in ss}
    if sc["network"].get("kind") == "custom":
        for i, st in enumerate(sc["network"]["stations"]):
            if st["id"] not in used and len(sc["network"]["stations"]) > 1:
                c = _clone(sc)
                del c["network"]["stations"][i]
                keep = []
                for k in c["network"]["constraints"]:
                    k["coeffs"].pop(st["id"], None)
                    if k["coeffs"]:
                        keep.append(k)
                c["network"]["constraints"] = keep
                if "reconfig" in c:
                    c["reconfig"] = [r for r in c["reconfig"] if r["name"] in {k["name"] for k in keep}]
                    for r_ in c["reconfig"]:
                        if r_.get("coeffs") is not None:
                            r_["coeffs"].pop(st["id"], None)
                            if not r_["coeffs"]:
                                r_.pop("coeffs")
                yield c
    # 6. simplify components
    for i, st in enumerate(sc["network"]["stations"]):
        if st["evse"] != {"type": "EVSE", "max": 32, "min": 0} and sc["party"]["kind"] != "scripted":
            c = _clone(sc)
            c["network"]["stations"][i]["evse"] = {"type": "EVSE", "max": 32, "min": 0}
            yield c
    for i, s in enumerate(ss):
        b = s["battery"]
        if b["type"] != "Battery":
            c = _clone(sc)
            c["sessions"][i]["battery"] = {"type": "Battery", "capacity": b["capacity"], "init": b["init"],
                                           "max_power": b["max_power"]}
            yield c
        elif b.get("noise"):
            c = _clone(sc)
            c["sessions"][i]["battery"]["noise"] = 0
            yield c
        if "est_departure" in s:
            c = _clone(sc)
            del c["sessions"][i]["est_departure"]
            yield c
    p = sc["party"]
    for key, simple in (("empty_prob", 0), ("len_mode", "one"), ("subset_mode", "all"), ("estimator", "none"),
                        ("uninterrupted", False)):
        if key in p and p[key] != simple:
            c = _clone(sc)
            c["party"][key] = simple
            yield c
    if p["kind"] == "scripted" and p.get("max_recompute") is not None:
        c = _clone(sc)
        c["party"]["max_recompute"] = None
        yield c
    # 7. shift everything to start at 0
    if ss:
        m = min([s["arrival"] for s in ss] + [e["t"] for e in sc.get("extra_events", [])])
        if m > 0 and not sc.get("faults"):
            c = _clone(sc)
            for s in c["sessions"]:
                s["arrival"] -= m
                s["departure"] -= m
                if "est_departure" in s:
                    s["est_departure"] -= m
            for e in c["extra_events"]:
                e["t"] -= m
            yield c
    # 8. shorten long stays
    for i, s in enumerate(ss):
        if s["departure"] - s["arrival"] > 2:
            c = _clone(sc)
            c["sessions"][i]["departure"] = s["arrival"] + (s["departure"] - s["arrival"]) // 2
            if "est_departure" in c["sessions"][i]:
                del c["sessions"][i]["est_departure"]
            yield c
    # 9. tapes
    t = sc.get("tapes", {})
    if t.get("noise") not in ("zeros", None):
        c = _clone(sc)
        c["tapes"]["noise"] = "zeros"
        yield c
    if t.get("choice") not in ("first", None):
        c = _clone(sc)
        c["tapes"]["choice"] = "first"
        yield c
    if sc["sim"].get("store_schedule_history"):
        c = _clone(sc)
        c["sim"]["store_schedule_history"] = False
        yield c
    if sc["sim"].get("period") != 5:
        c = _clone(sc)
        c["sim"]["period"] = 5
        yield c


def ops_candidates(sc, key="ops"):
    ops = sc[key]
    n = len(ops)
    if n > 3:
        h = n // 2
        for part in (ops[:h], ops[h:]):
            c = _clone(sc)
            c[key] = copy.deepcopy(part)
            yield c
    for i in range(n - 1, -1, -1):
        c = _clone(sc)
        del c[key][i]
        yield c
