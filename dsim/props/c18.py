"""C18 - analysis functions equal their first-principles definitions on recorded trajectories.

No schedule/fault dimension of its own: a post-run oracle on trajectories produced by whole simulated runs."""
import cmath
import datetime as dt
import math
from .. import sut, world, driver
from ..rng import sub
from ..build import build_start
from ..worldprop import base_outcome, completion, REAL_VS_STUB  # noqa

np = sut.np
ID = "C18"
RUNS = {"quick": 15000, "thorough": 180000}
BUDGET = {"quick": 45, "thorough": 780}
RULE = ("trajectories of generated worlds (heterogeneous voltages, three-phase mixed-sign constraints, all parties, crash+rerun); "
        "after each run every analysis function is recomputed in plain Python from the recorded rates, the scenario's voltages / "
        "phases / constraint dictionaries and the sessions; constraint subsets are requested in random order; non-trivial = "
        ">=2 distinct voltages and a subset query whose order differs from network order; distinct = history signature + query")
PROBES = ["concurrent_callers", "thread_switches", "subset_reordered", "hetero_voltage", "nema_checked", "nema_zero_mean", "threshold_query", "unserved_session", "requery_after_update_constraint", "requery_after_remove_constraint", "same_instant_two_zones", "results_edited_in_place_and_asked_again", "trajectory_over_3000_periods", "trajectory_over_16384_periods", "degenerate_subset_request",
          "magnitudes_flag_true", "complex_return", "refused_add_then_corrected"]
FAULT_DIMENSION = "none - post-run oracle on recorded trajectories (crash+rerun only diversifies the trajectories)"
ASSUMPTIONS = ["constraint currents are compared by magnitude (either complex or real return passes)",
               "sessions within 1e-9 kWh of the demands-met threshold are inconclusive"]
PROFILE = world.profile(constraints={"three": 5, "single": 1, "none": 1}, heterovolt=0.8, faults={"crash": 0.2}, very_long_idle=0.0015,
                        resume_modes=["rerun"], party={"scripted": 3, "uncontrolled": 2, "greedy": 2}, noise=0.2,
                        demand=(0.05, 2.0))


def gen(rs, tier):
    return world.gen_world(rs, PROFILE)


def close(a, b, rel=1e-9):
    return abs(a - b) <= rel * max(1.0, abs(a), abs(b)) + 1e-12


def check(sc):
    from acnportal.acnsim import analysis
    import warnings
    tr = driver.run_world(sc, observe=0)
    out = base_outcome(tr)
    ok = completion(tr, out, "C18", required=False)
    if not ok:
        return out
    sim = tr.sim
    r = sub(sc["seed"], "c18")
    ids = [s["id"] for s in sc["network"]["stations"]]
    V = [float(s["voltage"]) for s in sc["network"]["stations"]]
    PH = [float(s["phase"]) for s in sc["network"]["stations"]]
    R = [[float(x) for x in row] for row in sim.charging_rates]
    W = len(R[0]) if R else 0
    n = sim.iteration
    # periods that are compared one by one: all of them, or - for trajectories of many thousands of periods - every period in which
    # current flowed, the first and last few, every 97th, and the neighbourhood of every power of two (block boundaries)
    if W <= 3000:
        TS = list(range(W))
    else:
        pick = {t for t in range(W) if any(R[i][t] for i in range(len(ids)))} | set(range(0, W, 97)) | set(range(min(W, 4))) | set(range(max(0, W - 4), W))
        p2 = 256
        while p2 <= W + 2:
            pick |= {t for t in (p2 - 2, p2 - 1, p2, p2 + 1) if 0 <= t < W}
            p2 *= 2
        TS = sorted(pick)
        out.probe("trajectory_over_3000_periods")
        if W > 16384:
            out.probe("trajectory_over_16384_periods")
    if len(set(V)) >= 2:
        out.probe("hetero_voltage")
    try:
        with warnings.catch_warnings():
            warnings.simplefilter("ignore")
            ac = analysis.aggregate_current(sim)
            ap = analysis.aggregate_power(sim)
            if len(ac) != W or len(ap) != W:
                out.add("C18/aggregate_length", "%d/%d entries for %d recorded periods" % (len(ac), len(ap), W))
            for t in [t_ for t_ in TS if t_ < min(W, len(ac), len(ap))]:
                wc = sum(R[i][t] for i in range(len(ids)))
                wp = sum(V[i] * R[i][t] for i in range(len(ids))) / 1000.0
                if not close(float(ac[t]), wc):
                    out.add("C18/aggregate_current", "t=%d: %r, station sum %r" % (t, float(ac[t]), wc))
                    break
                if not close(float(ap[t]), wp):
                    out.add("C18/aggregate_power", "t=%d: %r kW, voltage-weighted station sum %r kW (voltages %s)" % (t, float(ap[t]), wp, V))
                    break
            cons = sc["network"]["constraints"]
            names = [c["name"] for c in cons]
            if cons and not out.viol:
                k = r.randint(1, len(names))
                subset = r.sample(names, k) if r.random() < 0.8 else None
                if subset is not None and [x for x in names if x in subset] != subset:
                    out.probe("subset_reordered")
                    if len(set(V)) >= 2:
                        out.nontrivial = True
                flag = r.random() < 0.5
                if flag:
                    out.probe("magnitudes_flag_true")
                res = analysis.constraint_currents(sim, return_magnitudes=flag, constraint_ids=subset)
                want_names = names if subset is None else subset
                if sorted(res.keys()) != sorted(want_names):
                    out.add("C18/constraint_currents_keys", "requested %s, got keys %s" % (subset, sorted(res.keys())))
                else:
                    by = {c["name"]: c for c in cons}
                    for nm in want_names:
                        arr = res[nm]
                        if np.iscomplexobj(arr):
                            out.probe("complex_return")
                        for t in TS:
                            w = abs(sum(by[nm]["coeffs"].get(s, 0) * R[i][t] * cmath.exp(1j * math.radians(PH[i])) for i, s in enumerate(ids)))
                            if not close(abs(complex(arr[t])), w, rel=1e-8):
                                out.add("C18/constraint_currents", "constraint %s t=%d: |%r|, phase-aware weighted sum %r (requested order %s, network order %s)"
                                        % (nm, t, complex(arr[t]), w, subset, names))
                                break
                        if out.viol:
                            break
                # degenerate request shapes: the empty subset, a repeated id, an id the network does not have; whatever comes
                # back must be keyed by real constraint names and carry that constraint's own currents
                if not out.viol:
                    form = r.choice(["empty", "repeat", "unknown", "none"])
                    req = {"empty": [], "repeat": [names[0]] + r.sample(names, r.randint(1, len(names))),
                           "unknown": r.sample(names, r.randint(1, len(names))) + ["no-such-constraint"], "none": None}[form]
                    if form == "unknown":
                        r.shuffle(req)
                    out.probe("degenerate_subset_request")
                    res3 = analysis.constraint_currents(sim, return_magnitudes=True, constraint_ids=req)
                    want3 = set(names) if req is None else {x for x in req if x in names}
                    if set(res3.keys()) != want3:
                        out.add("C18/constraint_currents_keys", "requested %s (%s), got keys %s, expected %s" % (req, form, sorted(res3.keys()), sorted(want3)))
                    by = {c["name"]: c for c in cons}
                    for nm in (sorted(want3) if not out.viol else []):
                        for t in TS:
                            w = abs(sum(by[nm]["coeffs"].get(s, 0) * R[i][t] * cmath.exp(1j * math.radians(PH[i])) for i, s in enumerate(ids)))
                            if not close(abs(complex(res3[nm][t])), w, rel=1e-8):
                                out.add("C18/constraint_currents", "request %s (%s): constraint %s t=%d: %r, phase-aware weighted sum %r (network order %s)"
                                        % (req, form, nm, t, complex(res3[nm][t]), w, names))
                                break
                        if out.viol:
                            break
                # NEMA unbalance over three constraints taken as phases A, B, C
                if len(names) >= 3 and not out.viol:
                    ph = r.sample(names, 3)
                    ub = analysis.current_unbalance(sim, ph)
                    out.probe("nema_checked")
                    by = {c["name"]: c for c in cons}
                    for t in TS:
                        mags = [abs(sum(by[nm]["coeffs"].get(s, 0) * R[i][t] * cmath.exp(1j * math.radians(PH[i])) for i, s in enumerate(ids))) for nm in ph]
                        mean = sum(mags) / 3.0
                        g = float(ub[t])
                        if mean < 1e-9:
                            out.probe("nema_zero_mean")
                            if mean == 0 and not (g != g):
                                out.add("C18/nema_zero_mean", "t=%d: unbalance %r where all three currents are 0" % (t, g))
                                break
                            continue
                        w = (max(mags) - mean) / mean
                        if g != g or abs(g - w) > 1e-7 * max(1.0, abs(w)):
                            out.add("C18/nema", "t=%d: unbalance %r, NEMA formula %r (currents %s)" % (t, g, w, mags))
                            break
            # the operator re-configures a constraint after the run (update_constraint moves it to the end of the network's
            # order); the same kind of query must now describe the re-configured network, name by name
            if len(names) >= 2 and not out.viol and r.random() < 0.6:
                by = {c["name"]: dict(c, coeffs=dict(c["coeffs"])) for c in cons}
                victim = r.choice(names[:-1]) if r.random() < 0.8 else names[-1]
                fac = r.choice([2.0, 0.5, -1.0, 3.0])
                by[victim]["coeffs"] = {k_: v_ * fac for k_, v_ in by[victim]["coeffs"].items()}
                if sub(sc["seed"], "requery_kind").random() < 0.4 and len(names) >= 2:
                    # ... or withdraws it altogether (a bare remove_constraint, nothing added afterwards)
                    sim.network.remove_constraint(victim)
                    names2 = [x for x in names if x != victim]
                    out.probe("requery_after_remove_constraint")
                else:
                    sim.network.update_constraint(victim, sut.Current(dict(by[victim]["coeffs"])), by[victim]["limit"] * 1.5)
                    names2 = [x for x in names if x != victim] + [victim]
                out.probe("requery_after_update_constraint")
                if list(sim.network.constraint_index) != names2:
                    out.inconclusive += 1     # row order after an update is not part of the property
                    names2 = list(sim.network.constraint_index)
                sub2 = r.sample(names2, r.randint(1, len(names2)))
                res2 = analysis.constraint_currents(sim, return_magnitudes=True, constraint_ids=sub2)
                if sorted(res2.keys()) != sorted(sub2):
                    out.add("C18/constraint_currents_keys", "after update_constraint: requested %s, got keys %s" % (sub2, sorted(res2.keys())))
                for nm in (sub2 if not out.viol else []):
                    for t in TS:
                        w = abs(sum(by[nm]["coeffs"].get(s, 0) * R[i][t] * cmath.exp(1j * math.radians(PH[i])) for i, s in enumerate(ids)))
                        if not close(abs(complex(res2[nm][t])), w, rel=1e-8):
                            out.add("C18/constraint_currents_after_update", "after update_constraint(%s): constraint %s t=%d: %r, phase-aware weighted sum "
                                    "%r (requested %s, network order now %s)" % (victim, nm, t, complex(res2[nm][t]), w, sub2, names2))
                            break
                    if out.viol:
                        break
            # the analyst adds a constraint of their own to the finished simulation's network, gets it wrong the first time (a
            # station that does not exist: refused with KeyError), corrects it and adds it again under the same name
            if not out.viol and r.random() < 0.3:
                i0 = r.randrange(len(ids))
                known, coef = ids[i0], r.choice([1, 2, -1, 0.5])
                refused = False
                try:
                    sim.network.add_constraint(sut.Current({known: coef, "NO-SUCH-STATION": 1}), 25.0, name="analyst's row")
                except KeyError:
                    refused = True
                out.probe("refused_add_then_corrected")
                if refused:
                    coef = coef * 2        # (the corrected version also fixes the weight)
                    sim.network.add_constraint(sut.Current({known: coef}), 25.0, name="analyst's row")
                    res3 = analysis.constraint_currents(sim, return_magnitudes=True, constraint_ids=["analyst's row"])
                    if sorted(res3.keys()) != ["analyst's row"]:
                        out.add("C18/constraint_currents_keys", "after a refused and then corrected add_constraint: requested [\"analyst's row\"], got keys %s "
                                "(network now lists %s)" % (sorted(res3.keys()), list(sim.network.constraint_index)[-3:]))
                    else:
                        for t in TS:
                            w = abs(coef * R[i0][t])
                            if not close(abs(complex(res3["analyst's row"][t])), w, rel=1e-8):
                                out.add("C18/constraint_currents", "constraint added after a refused first attempt: t=%d returns %r, |%r x rate of %s| = %r"
                                        % (t, complex(res3["analyst's row"][t]), coef, known, w))
                                break
            # energies
            if not out.viol:
                sess = {s["session_id"]: s for s in sc["sessions"]}
                hist = sim.ev_history
                req = sum(sess[k]["energy"] for k in hist)
                delivered = {}
                for p in tr.periods:
                    for i, s in enumerate(ids):
                        sid = p["st"][s][0]
                        if sid is not None:
                            delivered[sid] = delivered.get(sid, 0.0) + p["rates"][i] * V[i] / 1000.0 * sc["sim"]["period"] / 60.0
                dl = sum(delivered.get(k, 0.0) for k in hist)
                ted = float(analysis.total_energy_delivered(sim))
                ter = float(analysis.total_energy_requested(sim))
                if not close(ter, req):
                    out.add("C18/total_energy_requested", "%r vs sum of session requests %r" % (ter, req))
                if not close(ted, dl, rel=1e-8):
                    out.add("C18/total_energy_delivered", "%r vs energy integrated from recorded rates %r" % (ted, dl))
                if req > 0:
                    pe = float(analysis.proportion_of_energy_delivered(sim))
                    if not close(pe, dl / req, rel=1e-8):
                        out.add("C18/proportion_of_energy_delivered", "%r vs delivered/requested = %r" % (pe, dl / req))
                    if any(delivered.get(k, 0.0) < sess[k]["energy"] - 1e-3 for k in hist):
                        out.probe("unserved_session")
                thr = r.choice([0.1, 0.1, 1e-3, 0.5, 2.0, round(r.uniform(0, 3), 3), 0.0, 1e-4, 5e-4, 1e-6, -0.01])
                rem = [sess[k]["energy"] - delivered.get(k, 0.0) for k in hist]
                out.probe("threshold_query")
                if any(abs(x - thr) < 1e-9 for x in rem):
                    out.inconclusive += 1
                elif hist:
                    pm = float(analysis.proportion_of_demands_met(sim, threshold=thr))
                    w = sum(1 for x in rem if x < thr) / float(len(hist))
                    if not close(pm, w):
                        out.add("C18/proportion_of_demands_met", "threshold %r: %r, expected %r (remaining demands %s)" % (thr, pm, w, [round(x, 4) for x in rem][:8]))
            # datetimes
            if not out.viol:
                da = analysis.datetimes_array(sim)
                start = build_start(sc["sim"])
                if len(da) != n:
                    out.add("C18/datetimes_length", "%d entries for %d simulated periods" % (len(da), n))
                else:
                    for k in ([k_ for k_ in TS if k_ < n] if W > 3000 else range(n)):
                        w = np.datetime64(start + dt.timedelta(minutes=sc["sim"]["period"] * k))
                        try:
                            off_ = abs((np.datetime64(da[k], "us") - w) / np.timedelta64(1, "us")) > 2
                        except (OverflowError, ValueError):
                            off_ = True          # (an entry that cannot even be compared with the expected instant is wrong)
                        if off_:
                            out.add("C18/datetimes", "entry %d is %s, expected %s" % (k, da[k], w))
                            break
            # the analyst post-processes the arrays it was given IN PLACE (kA, kW, local time, masking) and asks again: every answer
            # is computed from the recorded trajectory, not from what an earlier caller did to an earlier answer
            red = sub(sc["seed"], "edit_results")
            if not out.viol and n >= 1 and red.random() < 0.3:
                out.probe("results_edited_in_place_and_asked_again")
                for nm_, fn_ in (("aggregate_current", lambda: analysis.aggregate_current(sim)), ("aggregate_power", lambda: analysis.aggregate_power(sim)),
                                 ("datetimes_array", lambda: analysis.datetimes_array(sim))):
                    first_ = fn_()
                    keep_ = np.array(first_, copy=True)
                    try:
                        if nm_ == "datetimes_array":
                            first_ += np.timedelta64(8, "h")
                        else:
                            first_ *= 1000.0
                            first_[...] = -1.0
                    except (ValueError, TypeError):
                        continue              # (a read-only answer cannot be edited: fine)
                    second_ = fn_()
                    if len(second_) != len(keep_) or not all(a_ == b_ for a_, b_ in zip(np.asarray(second_).tolist(), keep_.tolist())):
                        out.add("C18/" + ("datetimes" if nm_ == "datetimes_array" else nm_), "%s(sim) asked twice: the caller edited the first answer in place and the second "
                                "answer is %s..., the first was %s..." % (nm_, np.asarray(second_)[:3].tolist(), keep_[:3].tolist()))
                        break
                if not out.viol and sim.charging_rates.shape[1] >= 1 and not np.array_equal(np.array(R, dtype=float), np.asarray(sim.charging_rates, dtype=float)):
                    out.add("C18/aggregate_current", "editing the arrays returned by the analysis functions changed the simulator's recorded charging rates")
            # two finished simulations alive in one process whose starts denote the SAME instant in different time zones (two sites
            # of one operator): each one's datetime array is anchored at its own wall-clock start
            rz = sub(sc["seed"], "two_zones")
            if not out.viol and n >= 1 and rz.random() < 0.25:
                import copy as _copy
                import zoneinfo
                za_, zb_ = rz.sample(["UTC", "America/Los_Angeles", "Asia/Kolkata", "Europe/Berlin", "Australia/Sydney"], 2)
                base_ = build_start(sc["sim"]).replace(tzinfo=None).replace(tzinfo=zoneinfo.ZoneInfo(za_))
                out.probe("same_instant_two_zones")
                for zz_ in (za_, zb_, za_):
                    twin_ = _copy.copy(sim)
                    twin_.start = base_.astimezone(zoneinfo.ZoneInfo(zz_))
                    dz_ = analysis.datetimes_array(twin_)
                    w0_ = np.datetime64(twin_.start.replace(tzinfo=None))
                    try:
                        bad_ = len(dz_) != n or abs((np.datetime64(dz_[0], "us") - w0_) / np.timedelta64(1, "us")) > 2
                    except (OverflowError, ValueError):
                        bad_ = True
                    if bad_:
                        out.add("C18/datetimes", "simulation starting %s (the same instant as another simulation alive in this process, in another zone): first entry %s, "
                                "expected its own wall-clock start %s" % (twin_.start.isoformat(), dz_[0] if len(dz_) else None, w0_))
                        break
            # caller threads: several report generators read one finished simulation at the same time; the seed decides the
            # interleaving of their steps inside the library (dsim/threads.py); each must get what it gets alone
            rt = sub(sc["seed"], "threads")
            if not out.viol and rt.random() < 0.2:
                from ..threads import Interleaver

                def canon(v):
                    if isinstance(v, dict):
                        return sorted((str(k_), canon(x_)) for k_, x_ in v.items())
                    if isinstance(v, np.ndarray):
                        return [repr(x_) for x_ in v.tolist()]
                    if isinstance(v, (list, tuple)):
                        return [canon(x_) for x_ in v]
                    return repr(v)
                names_ = list(sim.network.constraint_index)
                menu = [("aggregate_current", lambda: analysis.aggregate_current(sim)),
                        ("aggregate_power", lambda: analysis.aggregate_power(sim)),
                        ("total_energy_delivered", lambda: analysis.total_energy_delivered(sim)),
                        ("proportion_of_energy_delivered", lambda: analysis.proportion_of_energy_delivered(sim)),
                        ("datetimes_array", lambda: analysis.datetimes_array(sim))]
                if names_:
                    sub_a = rt.sample(names_, rt.randint(1, len(names_)))
                    sub_b = rt.sample(names_, rt.randint(1, len(names_)))
                    menu += [("constraint_currents(magnitudes, %s)" % sub_a, lambda: analysis.constraint_currents(sim, return_magnitudes=True, constraint_ids=sub_a)),
                             ("constraint_currents(complex, %s)" % sub_b, lambda: analysis.constraint_currents(sim, constraint_ids=sub_b)),
                             ("constraint_currents(all)", lambda: analysis.constraint_currents(sim, return_magnitudes=True))]
                jobs = rt.sample(menu, min(len(menu), rt.choice([2, 2, 3])))
                alone = [canon(f_()) for _, f_ in jobs]
                res_, info_ = Interleaver(sub(sc["seed"], "interleave"), sut.in_repo).run([f_ for _, f_ in jobs])
                out.probe("concurrent_callers")
                out.probe("thread_switches", info_["switches"])
                for (nm_, _), (kind_, val_), alone_ in zip(jobs, res_, alone):
                    if kind_ == "exc":
                        from ..driver import classify_exception
                        if classify_exception(val_) == "harness":
                            raise val_
                        out.add("C18/concurrent_callers", "threads reading one finished simulation: %s raised %s: %s (interleaving %s)"
                                % (nm_, type(val_).__name__, str(val_)[:100], info_["order"][:30]))
                        break
                    if canon(val_) != alone_:
                        out.add("C18/concurrent_callers", "threads reading one finished simulation (interleaving %s): %s returned %s, alone it returns %s"
                                % (info_["order"][:30], nm_, str(canon(val_))[:150], str(alone_)[:150]))
                        break
    except Exception as x:
        from ..driver import classify_exception
        if classify_exception(x) == "harness":
            raise
        out.add("C18/exception:" + type(x).__name__, str(x)[:200])
    return out
