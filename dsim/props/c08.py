"""C08 - priority allocation: greedy grants the max feasible rate; round-robin stops when blocked; uncontrolled = max pilot.

No schedule/fault dimension of its own (one call is a pure function); simulation supplies the reached states."""
from .. import sut, world, driver
from ..rng import sub
from ..models import phasor, alloc
from ..sortedworld import truth_sessions, cons_of
from ..world import evse_levels
from ..worldprop import base_outcome, completion, REAL_VS_STUB  # noqa

np = sut.np
ID = "C08"
RUNS = {"quick": 7000, "thorough": 100000}
BUDGET = {"quick": 50, "thorough": 800}
RULE = ("worlds as C07 but estimator and uninterrupted charging off, unequal voltages and max pilots, several mixed-sign "
        "constraints; every completed call is replayed by a reference (closed-form 1-D maximum for greedy, deque replay for "
        "round-robin) from first principles; calls with tied priority keys or feasibility margins inside the guard band are "
        "inconclusive; non-trivial = call with >=2 constraints binding and >=3 active sessions; distinct = history signature")
PROBES = ["greedy_call_checked", "rr_call_checked", "uncontrolled_call_checked", "tie_inconclusive", "guard_inconclusive",
          "bisection_used", "ub_granted", "finite_level_lowered", "two_constraints_binding", "eps_probe", "order_matters",
          "rr_blocked_session", "call_after_reconfig", "uninterrupted_call", "min_pilot_refused", "direct_schedule_call_shared_bounds", "direct_schedule_call_edited_energy", "near_tie_world", "estimator_call", "allocation_routine_called_with_a_kept_infrastructure_description", "algorithm_retuned_mid_run"]
FAULT_DIMENSION = ("environment fault only: the operator changes a constraint limit between two periods of the run "
                   "(ChargingNetwork.update_constraint); otherwise reached-state distribution")
ASSUMPTIONS = ["priority keys pairwise distinct (else the call is inconclusive)",
               "uninterrupted charging: minimum pilots are pre-granted in order of remaining time as documented; a call where a "
               "minimum is refused while two sessions tie in remaining time is inconclusive",
               "feasibility decided with the algorithms' hard-wired tolerances 1e-5 / 1e-7; guard band 1e-9*max(1,limit)",
               "bisection tolerance of the greedy algorithm is its hard-wired 0.01 A; other tolerances via max_feasible_rate(eps=...) probes"]
PROFILE = world.profile(reconfig=0.3, constraints={"three": 6, "single": 1}, binding=(0.15, 0.8), evse_kinds={"cont": 3, "finite": 3},
                        party={"greedy": 4, "rr": 2, "uncontrolled": 1}, estimator={"none": 3, "stub": 1}, uninterrupted=0.35,
                        hot=0.1, b2b=0.2, stations=(3, 8), demand=(0.05, 1.6), heterovolt=0.9, rr_inc=[0.5, 1, 3],
                        horizon=(4, 20), noise=0.1, chain_fill=(0.5, 1.0), sorted_max_recompute=[1, 1, 1, 1, 2, 3, None],
                        faults={"crash": 0.35}, resume_modes=["rerun", "rerun", "json_str"], reconfig_at_crash=0.7)
EPS = [1e-7, 1e-6, 1e-4, 1e-3, 0.01, 0.1, 1]


def gen(rs, tier):
    sc = world.gen_world(rs, PROFILE)
    sc["network"]["violation_tolerance"] = 1e-5
    sc["network"]["relative_tolerance"] = 1e-7
    if sc["party"].get("estimator") == "stub" and (sc["party"]["kind"] != "greedy" or sc["party"].get("uninterrupted")):
        sc["party"]["estimator"] = "none"      # (rate estimates are modelled for the greedy algorithm without minimum pilots only)
    rrt = world.sub(rs, "retune")
    if sc["party"]["kind"] == "rr" and rrt.random() < 0.3:
        # the operator changes the round-robin step (public attribute continuous_inc) while the run is under way
        cur_ = sc["party"].get("continuous_inc", 1)
        sc["party"]["retune"] = {"at_call": rrt.randint(2, 6), "set": {"continuous_inc": rrt.choice([x_ for x_ in (0.5, 1, 2, 3) if x_ != cur_])}}
    r = world.sub(rs, "near_tie")
    if sc["party"].get("sort") in ("llf", "lrpt") and r.random() < 0.3:
        # two sessions whose laxity / processing-time keys differ by a few 1e-4 periods when they first compete: distinct keys,
        # so the order is determined, but any coarser comparison would call it a tie
        from ..sortedworld import max_pilot as _mp
        st = {s_["id"]: s_ for s_ in sc["network"]["stations"]}
        firsts = {}
        for s_ in sorted(sc["sessions"], key=lambda z: z["arrival"]):
            firsts.setdefault(s_["station"], s_)
        if len(firsts) >= 2:
            a_, b_ = r.sample(sorted(firsts.values(), key=lambda z: z["session_id"]), 2)
            t0 = min(a_["arrival"], b_["arrival"])
            a_["arrival"] = b_["arrival"] = t0
            dep = a_.get("est_departure", a_["departure"])
            a_["est_departure"] = b_["est_departure"] = max(dep, t0 + 1)
            per = sc["sim"]["period"]
            qa = a_["energy"] * 1000.0 / st[a_["station"]]["voltage"] * 60.0 / per / _mp(st[a_["station"]]["evse"])
            qb = qa + r.choice([-1, 1]) * r.choice([2e-4, 4e-4, 7e-4])
            if qb > 0:
                b_["energy"] = qb * _mp(st[b_["station"]]["evse"]) * st[b_["station"]]["voltage"] * per / 60.0 / 1000.0
                b_["battery"]["capacity"] = max(b_["battery"]["capacity"], b_["battery"]["init"] + b_["energy"] * 1.3)
                sc["near_tie"] = [a_["session_id"], b_["session_id"]]
    return sc


def min_alloc(out, keep, cons, phases, N, t):
    """See models.alloc.min_alloc (order-independent replay of the documented minimum-pilot pre-allocation)."""
    lbs, refused = alloc.min_alloc(keep, cons, phases, N, t)
    if lbs is not None and refused:
        out.probe("min_pilot_refused")
    return lbs


def greedy_expect(out, sc, t, order, vec, cons, phases, tag, lbs=None):
    """Walk the priority order; returns False if the call is inconclusive or violated."""
    N = len(vec)
    rates = [0.0] * N
    lbs = lbs or {}
    for x in order:
        rates[x["i"]] = lbs.get(x["i"], (0.0, False))[0]
    nbind = 0
    for x in order:
        i = x["i"]
        lb, refused = lbs.get(i, (0.0, False))
        ub = 0.0 if refused else min(max(x.get("ub_cap", x["max_pilot"]), lb), x["rem_ap"])
        got = vec[i]
        e = x["evse"]
        if e["type"] == "EVSE":
            trial = list(rates)
            trial[i] = ub
            ok, concl = alloc.feasible(cons, phases, trial)
            if not concl:
                out.probe("guard_inconclusive")
                return False
            if ok:
                out.probe("ub_granted")
                if abs(got - ub) > 1e-9 * max(1.0, ub):
                    out.add("C08/greedy_not_max", "%s station %s (priority %d): upper bound %r is feasible but granted %r"
                            % (tag, x["station"], order.index(x), ub, got))
                    return False
            else:
                out.probe("bisection_used")
                xs = phasor.max_feasible_1d(cons, phases, rates, i, lb, ub, alloc.ALG_VT, alloc.ALG_RT)
                if not (xs - 0.01 - 1e-6 <= got <= xs + 1e-6):
                    out.add("C08/greedy_not_max", "%s station %s (priority %d): granted %r, largest feasible rate %r (bisection tolerance 0.01)"
                            % (tag, x["station"], order.index(x), got, xs))
                    return False
                nbind += 1
        else:
            lv = [a for a in evse_levels(e) if lb <= a <= ub]
            if any(abs(a - ub) < 1e-9 for a in evse_levels(e)) and not any(a == ub for a in evse_levels(e)):
                out.probe("guard_inconclusive")
                return False
            want = 0.0
            lowered = False
            for a in sorted(lv, reverse=True):
                trial = list(rates)
                trial[i] = a
                ok, concl = alloc.feasible(cons, phases, trial)
                if not concl:
                    out.probe("guard_inconclusive")
                    return False
                if ok:
                    want = a
                    break
                lowered = True
            if lowered:
                out.probe("finite_level_lowered")
                nbind += 1
            if abs(got - want) > 1e-9:
                out.add("C08/greedy_level", "%s station %s (priority %d): granted level %r, largest feasible allowable level %r (ub %r)"
                        % (tag, x["station"], order.index(x), got, want, ub))
                return False
        rates[i] = got
    if nbind >= 2 and len(order) >= 3:
        out.probe("two_constraints_binding")
        out.nontrivial = True
    return True


def check(sc):
    p = sc["party"]
    kind = p["kind"]
    from ..engine import Outcome
    pre = Outcome()
    ids = [s["id"] for s in sc["network"]["stations"]]
    phases = [s["phase"] for s in sc["network"]["stations"]]
    state = {"n": 0}

    def setup(ctx, party):
        if p.get("estimator") == "stub":
            def est_hook(party_, iface, rec, sched):
                est = getattr(party_.inner, "max_rate_estimator", None)
                rec["est_bounds"] = dict(getattr(est, "bounds", {}) or {})
            ctx.post_hooks.append(est_hook)
        if kind in ("greedy", "rr"):
            def direct(party_, iface, rec, sched):
                # the algorithm called directly (public schedule()) on sessions the caller built itself: generous bounds given
                # as views of ONE shared buffer, as numpy users do; the answer must be the one just given for the same state
                r_ = sub(sc["seed"], "direct", rec["t"])
                if state.get("direct", 0) >= 2 or r_.random() < 0.6 or pre.viol:
                    return
                state["direct"] = state.get("direct", 0) + 1
                mine = iface.active_sessions()
                if not mine:
                    return
                buf = np.full(max(s_.remaining_time for s_ in mine) + 1, 1000.0)
                custom = [sut.SessionInfo(s_.station_id, s_.session_id, s_.requested_energy, s_.energy_delivered, s_.arrival, s_.departure,
                                          s_.estimated_departure, s_.current_time, min_rates=0, max_rates=buf[: s_.remaining_time])
                          for s_ in mine]
                again = party_.inner.schedule(custom)
                pre.probe("direct_schedule_call_shared_bounds")
                a_ = {k_: [float(x) for x in v_] for k_, v_ in again.items()}
                b_ = {k_: [float(x) for x in v_] for k_, v_ in sched.items()}
                if a_ != b_:
                    pre.add("C08/direct_call_differs", "t=%d: schedule() on caller-built sessions (max_rates = views of one shared buffer of 1000 A) "
                            "gives %s, the run's own call gave %s" % (rec["t"], a_, b_))
                # the caller edits the energy fields of the sessions it hands over (a demand-response cap, a what-if study) and keeps
                # the live session ids: each session's own bound is the one of the session object *passed in*
                if p.get("uninterrupted") or pre.viol:
                    return
                granted = [s_ for s_ in mine if float(sched.get(s_.station_id, [0])[0]) > 1e-6]
                if not granted:
                    return
                vict = granted[r_.randrange(len(granted))]
                rate_v = float(sched[vict.station_id][0])
                volt = next(float(st_["voltage"]) for st_ in sc["network"]["stations"] if st_["id"] == vict.station_id)
                cap_ap = rate_v / 2.0                                            # new remaining demand, in amp-periods
                cap_kwh = cap_ap * volt / 1000.0 * sc["sim"]["period"] / 60.0
                edited = [sut.SessionInfo(s_.station_id, s_.session_id,
                                          (s_.energy_delivered + cap_kwh) if s_ is vict else s_.requested_energy, s_.energy_delivered,
                                          s_.arrival, s_.departure, s_.estimated_departure, s_.current_time, min_rates=0,
                                          max_rates=np.full(s_.remaining_time, 1000.0)) for s_ in mine]
                third = party_.inner.schedule(edited)
                pre.probe("direct_schedule_call_edited_energy")
                got_v = float(third.get(vict.station_id, [0.0])[0])
                if got_v > cap_ap * (1 + 1e-6) + 1e-6:
                    pre.add("C08/edited_session_bound_ignored", "t=%d: schedule() on sessions whose energy fields the caller edited (session %s: remaining "
                            "demand set to %r A*periods, live ids kept) grants it %r A" % (rec["t"], vict.session_id, cap_ap, got_v))
            ctx.post_hooks.append(direct)

            def direct_core(party_, iface, rec, sched):
                # the allocation routine itself called by a caller that keeps ONE infrastructure description for the whole site and
                # hands it to every call (public sorting_algorithm / round_robin): the description is the caller's, it must come
                # back as it went in, and the rates must be the ones the run's own call produced for the same state
                r_ = sub(sc["seed"], "direct_core", rec["t"])
                if state.get("core", 0) >= 3 or r_.random() < 0.5 or pre.viol or p.get("estimator") == "rampdown":
                    return
                state["core"] = state.get("core", 0) + 1
                mine = iface.infrastructure_info()

                def snap_(inf_):
                    return {k_: (np.array(getattr(inf_, k_), dtype=float).tolist() if k_ not in ("allowable_pilots", "station_ids", "constraint_ids")
                                 else ([np.array(a_, dtype=float).tolist() for a_ in getattr(inf_, k_)] if k_ == "allowable_pilots" else list(getattr(inf_, k_))))
                            for k_ in ("constraint_matrix", "constraint_limits", "phases", "voltages", "min_pilot", "max_pilot", "is_continuous",
                                       "allowable_pilots", "station_ids", "constraint_ids")}
                before_ = snap_(mine)
                algo = party_.inner
                fn_ = algo.round_robin if kind == "rr" else algo.sorting_algorithm
                outs_ = []
                for _ in range(2):
                    sess_ = algo.run_preprocessing(iface.active_sessions(), mine)
                    outs_.append([float(x) for x in np.array(fn_(sess_, mine), dtype=float).reshape(len(ids), -1)[:, 0]])
                pre.probe("allocation_routine_called_with_a_kept_infrastructure_description")
                after_ = snap_(mine)
                if after_ != before_:
                    ch_ = [k_ for k_ in before_ if before_[k_] != after_[k_]]
                    pre.add("C08/callers_infrastructure_description_changed", "t=%d: %s(sessions, infrastructure) changed the caller's InfrastructureInfo (%s): "
                            "%s -> %s" % (rec["t"], fn_.__name__, ch_, str(before_[ch_[0]])[:120], str(after_[ch_[0]])[:120]))
                    return
                own_ = [float(sched.get(s_, [0.0])[0]) for s_ in ids]
                if outs_[0] != own_ or outs_[1] != own_:
                    pre.add("C08/direct_call_differs", "t=%d: %s(sessions, infrastructure) on the same state gives %s, then %s; the run's own call gave %s"
                            % (rec["t"], fn_.__name__, outs_[0], outs_[1], own_))
            ctx.post_hooks.append(direct_core)
        if kind != "greedy":
            return

        def post(party_, iface, rec, sched):
            # eps probe on the state of the moment: call the public static max_feasible_rate for other tolerances
            cons = cons_of(sc, rec["t"])
            if state["n"] >= 3 or not cons or world.attempt_precedes_intervention(sc, rec):
                return
            r = sub(sc["seed"], "eps", rec["t"])
            if r.random() < 0.5:
                return
            state["n"] += 1
            infra = iface.infrastructure_info()
            vec = np.array([float(sched[s][0]) for s in ids])
            cand = [i for i, s in enumerate(sc["network"]["stations"]) if s["evse"]["type"] == "EVSE"]
            if not cand:
                return
            i = r.choice(cand)
            base = vec.copy()
            base[i] = 0.0
            ok, concl = alloc.feasible(cons, phases, list(base))
            if not (ok and concl):
                return
            ub = float(sc["network"]["stations"][i]["evse"]["max"])
            e = r.choice(EPS)
            got = float(sut.SortedSchedulingAlgo.max_feasible_rate(i, ub, base, infra, eps=e, lb=0.0))
            trial = list(base)
            trial[i] = ub
            okub, c2 = alloc.feasible(cons, phases, trial)
            pre.probe("eps_probe")
            if not c2:
                return
            if okub:
                if abs(got - ub) > 1e-9:
                    pre.add("C08/max_feasible_rate_eps", "t=%d station %d eps=%g: ub %r feasible but returned %r" % (rec["t"], i, e, ub, got))
            else:
                xs = phasor.max_feasible_1d(cons, phases, list(base), i, 0.0, ub, alloc.ALG_VT, alloc.ALG_RT)
                if not (xs - e - 1e-6 <= got <= xs + 1e-6):
                    pre.add("C08/max_feasible_rate_eps", "t=%d station %d eps=%g: returned %r, exact maximum %r" % (rec["t"], i, e, got, xs))
        ctx.post_hooks.append(post)

    tr = driver.run_world(sc, observe=0, setup=setup)
    out = base_outcome(tr, extra_sig=[kind, p.get("sort"), p.get("continuous_inc")])
    out.viol = pre.viol
    out.probes = dict(out.probes, **pre.probes)
    if sc.get("near_tie"):
        out.probe("near_tie_world")
    out.probe("algorithm_retuned_mid_run", tr.fault_counts.get("algorithm_retuned", 0))
    completion(tr, out, "C08", required=False)
    period = sc["sim"]["period"]
    for c in tr.calls:
        if not c.get("completed") or out.viol:
            continue
        t = c["t"]
        sch = c["schedule"]
        cons = cons_of(sc, t)
        if any(r["t"] <= t for r in sc.get("reconfig", ())):
            out.probe("call_after_reconfig")
        truth = truth_sessions(sc, tr, t)
        if any(abs(x["remaining"] - 1e-3) < 1e-9 for x in truth):
            out.inconclusive += 1
            continue
        active = [x for x in truth if x["remaining"] > 1e-3]
        tag = "t=%d" % t
        if kind == "uncontrolled":
            want = {x["station"]: x["max_pilot"] for x in active}
            got = {k: v[0] for k, v in sch.items()}
            out.probe("uncontrolled_call_checked")
            if got != want or any(len(v) != 1 for v in sch.values()):
                out.add("C08/uncontrolled", "%s schedule %s, expected exactly %s" % (tag, sch, want))
            if len(active) >= 2:
                out.nontrivial = True
            continue
        if sorted(sch.keys()) != sorted(ids):
            out.add("C08/schedule_keys", "%s keys %s" % (tag, sorted(sch.keys())))
            continue
        vec = [sch[s][0] for s in ids]
        # remove_finished_sessions threshold (documented preprocessing)
        keep = []
        incon = False
        for x in active:
            thr = x["min_pilot"] * x["voltage"] / (60.0 / period) / 1000.0
            if abs(x["remaining"] - thr) < 1e-9:
                incon = True
            if x["remaining"] > thr:
                keep.append(x)
        if incon:
            out.inconclusive += 1
            continue
        keys = alloc.priority_keys(p["sort"], keep, t)
        if not alloc.distinct(keys):
            out.probe("tie_inconclusive")
            out.inconclusive += 1
            continue
        order = [x for _, x in sorted(zip(keys, keep), key=lambda z: z[0])]
        served = {x["i"] for x in order}
        bad = [ids[i] for i in range(len(ids)) if i not in served and vec[i] != 0]
        if bad:
            out.add("C08/pilot_for_inactive_station", "%s stations %s got %s" % (tag, bad, [vec[ids.index(b)] for b in bad]))
            continue
        lbs = {}
        if p.get("uninterrupted"):
            lbs = min_alloc(out, keep, cons, phases, len(ids), t)
            if lbs is None:
                out.probe("guard_inconclusive")
                out.inconclusive += 1
                continue
            out.probe("uninterrupted_call")
        if kind == "greedy":
            if p.get("estimator") == "stub":
                # an upper-bound estimate caps what a session may be given; it does not enter the priority keys (laxity and
                # processing time are defined with the EVSE's maximum pilot)
                out.probe("estimator_call")
                eb_ = c.get("est_bounds", {})
                for x in order:
                    x["ub_cap"] = min(x["max_pilot"], eb_.get(x["session_id"], float("inf")))
            if greedy_expect(out, sc, t, order, vec, cons, phases, tag, lbs):
                out.probe("greedy_call_checked")
                if len(order) >= 2 and [x["arrival"] for x in order] != sorted(x["arrival"] for x in order):
                    out.probe("order_matters")
        else:
            inc = c.get("opts", {}).get("continuous_inc", p.get("continuous_inc", 1))      # (the increment in force at that call)
            levels = {}
            incon = False
            for x in order:
                e = x["evse"]
                lb, refused = lbs.get(x["i"], (0.0, False))
                ub = 0.0 if refused else min(max(x["max_pilot"], lb), x["rem_ap"])
                if e["type"] == "EVSE":
                    grid = np.arange(lb, (0.0 if refused else max(x["max_pilot"], lb)) + inc / 2, inc)
                else:
                    grid = np.array(evse_levels(e), dtype=float)
                if any(abs(a - ub) < 1e-9 and a != ub for a in grid):
                    incon = True
                levels[x["i"]] = [float(a) for a in grid if lb <= a <= ub]
            if incon:
                out.probe("guard_inconclusive")
                out.inconclusive += 1
                continue
            want, concl = alloc.round_robin(cons, phases, len(ids), [x["i"] for x in order], levels)
            if not concl or want is None:
                out.probe("guard_inconclusive")
                out.inconclusive += 1
                continue
            out.probe("rr_call_checked")
            if any(abs(a - b) > 1e-9 for a, b in zip(want, vec)):
                out.add("C08/round_robin", "%s schedule %s, reference replay %s (order %s)" % (tag, vec, want, [x["station"] for x in order]))
            nblocked = sum(1 for x in order if levels[x["i"]] and vec[x["i"]] < levels[x["i"]][-1] - 1e-9)
            if nblocked:
                out.probe("rr_blocked_session", nblocked)
            if nblocked >= 2 and len(order) >= 3:
                out.nontrivial = True
    return out
