import json
"""C12 - constraint matrix, limits and names stay aligned under add/remove/update (operation history vs. reference model).

Model-based history checking: no time, no randomness in the SUT; the only 'faults' are rejected operations, which must
leave the model-visible state unchanged."""
import cmath
import math
from .. import sut
from ..engine import Outcome
from ..rng import sub, digest
from ..shrink import ops_candidates

np, pd = sut.np, sut.pd
ID = "C12"
RUNS = {"quick": 11700, "thorough": 250000}
BUDGET = {"quick": 45, "thorough": 780}
CHUNK = 300
DET_EVERY = 200
RULE = ("1-8 stations registered in random order, then 1-25 add/remove/update/query operations with Currents built as "
        "expression trees (leaf forms str/list/dict/Series, +, -, k*a, a*k, a*=k, nested); non-trivial = history with "
        ">=1 remove or update and >=1 composed Current; distinct = distinct operation/expression-shape sequence")
PROBES = ["warning_as_error_survived", "concurrent_callers", "thread_switches", "composed_current", "scalar_multiple_operand", "remove", "update", "update_new_name", "rejected_unknown_station",
          "rejected_unknown_name", "late_register_rejected", "subset_query_reordered", "time_subset_query", "time_window_permuted",
          "duplicate_name", "unnamed", "series_leaf", "json_restart", "plain_series_operand", "update_derived_from_old_row", "time_window_negative", "shared_operand_world", "late_register_existing_id", "name_collision_beyond_alias", "constraint_object_entered_again_unnamed"]
FAULT_DIMENSION = "restart (network saved to JSON and loaded mid-history); rejected operations (unknown station / unknown name / late register_evse); weakest sense in which the family applies"
REAL_VS_STUB = "real: ChargingNetwork, Current, EVSE; ours: dict-based reference network (refnet)"
ASSUMPTIONS = ["row order is only required to be aligned with constraint_index (the position of an updated row is not constrained)",
               "names ending in _v2 are never generated; a duplicate name is generated at most once per name"]
PH = [30, -90, 150, 0, 45]


def candidates(sc):
    return ops_candidates(sc, "ops")


def gen_expr(r, stations, depth=0, plain_ok=False):
    """plain_ok: this sub-expression may evaluate to a plain pandas Series (unary minus, division by a scalar) because it is
    one operand of a + / - whose other operand is a Current (Current.__radd__/__rsub__/__add__/__sub__ take such operands);
    a plain Series combined with a plain Series, or handed to add_constraint, never touches the Current algebra."""
    k = r.random()
    if depth >= 3 or k < 0.4:
        form = r.choice(["str", "list", "dict", "dict", "series"])
        ksh = r.random()
        if ksh < 0.12:
            # one of a few operands that the whole history shares (same object every time it is used)
            j_ = r.randrange(4)
            rr_ = sub(("shared-leaf", tuple(stations)), j_)
            mem_ = rr_.sample(stations, rr_.randint(1, len(stations)))
            return {"k": "leaf", "form": "dict", "shared": j_,
                    "terms": {m: rr_.choice([1, 1, -1, 0.25, 2]) for m in mem_}}
        if ksh < 0.16:
            return {"k": "leaf", "form": r.choice(["dict", "list"]), "terms": {}}       # a group with no load (yet)
        if ksh < 0.19:
            return {"k": "leaf", "form": "dict", "shared": 4 + r.randrange(2), "terms": {}}   # a shared empty operand
        if form == "str":
            return {"k": "leaf", "form": "str", "terms": {r.choice(stations): 1}}
        n = r.randint(1, len(stations))
        mem = r.sample(stations, n)
        if form == "list":
            return {"k": "leaf", "form": "list", "terms": {m: 1 for m in mem}}
        return {"k": "leaf", "form": form,
                "terms": {m: r.choice([1, 1, -1, 0.25, -0.5, 2, round(r.uniform(-3, 3), 2) or 1]) for m in mem}}
    if k < 0.8:
        pa = r.random() < 0.5
        return {"k": "add" if k < 0.6 else "sub", "a": gen_expr(r, stations, depth + 1, plain_ok=pa),
                "b": gen_expr(r, stations, depth + 1, plain_ok=not pa)}
    if k < 0.9 or not plain_ok:
        a_ = gen_expr(r, stations, depth + 1)
        side_ = r.choice(["l", "r", "i"])
        if side_ == "i" and a_["k"] == "leaf" and a_.get("shared") is not None:
            side_ = "r"      # (an in-place multiple of a shared operand would legitimately change it for everybody)
        return {"k": "mul", "c": r.choice([2, 0.25, -1, 0.5, 3, 1 / 4, round(r.uniform(-2, 2), 2) or 1]), "side": side_, "a": a_}
    # unary minus / division by a scalar: scalar multiples spelled differently (-a == -1*a, a/2 == 0.5*a)
    if k < 0.95:
        return {"k": "mul", "c": -1, "side": "neg", "a": gen_expr(r, stations, depth + 1)}
    d_ = r.choice([2, 4, 0.5, -2])
    return {"k": "mul", "c": 1.0 / d_, "div": d_, "side": "div", "a": gen_expr(r, stations, depth + 1)}


def ev_model(e):
    if e["k"] == "reuse":
        return {k: v * (1.0 if e["c"] is None else e["c"]) for k, v in ev_model(e["src"]).items()}
    if e["k"] == "leaf":
        return dict((k, float(v)) for k, v in e["terms"].items())
    if e["k"] in ("add", "sub"):
        a, b = ev_model(e["a"]), ev_model(e["b"])
        sg = 1.0 if e["k"] == "add" else -1.0
        out = dict(a)
        for k, v in b.items():
            out[k] = out.get(k, 0.0) + sg * v
        return out
    a = ev_model(e["a"])
    return {k: v * e["c"] for k, v in a.items()}


_POOL = [None]      # per-scenario pool of leaf Current objects that several expressions share (set by check())


_ADDED = [None]     # per-scenario: aid -> the Current object that was handed to add_constraint


def ev_real(e):
    C = sut.Current
    if e["k"] == "reuse":
        obj = _ADDED[0].get(e["of"])
        if obj is None:
            obj = ev_real(e["src"])      # (the first entry was refused or is no longer part of the history: then it is simply a new object)
        return obj if e["c"] is None else e["c"] * obj
    if e["k"] == "leaf":
        t = e["terms"]
        if e.get("shared") is not None and _POOL[0] is not None:
            # the same Current object is an operand of several expressions (a panel's current re-used for its feeder, ...);
            # every operation of the algebra returns a new Current, so sharing operands is harmless
            key = e["shared"]
            if key not in _POOL[0]:
                _POOL[0][key] = (C(dict(t)) if t else (C() if key % 2 else C([])), dict(t))
            return _POOL[0][key][0]
        if not t:
            return C() if e["form"] == "dict" else C([])
        if e["form"] == "str":
            return C(next(iter(t)))
        if e["form"] == "list":
            return C(list(t.keys()))
        if e["form"] == "dict":
            return C(dict(t))
        return C(pd.Series(dict(t), dtype="float64"))
    if e["k"] == "add":
        return ev_real(e["a"]) + ev_real(e["b"])
    if e["k"] == "sub":
        return ev_real(e["a"]) - ev_real(e["b"])
    a = ev_real(e["a"])
    if e["side"] == "l":
        return e["c"] * a
    if e["side"] == "r":
        return a * e["c"]
    if e["side"] == "neg":
        return -a
    if e["side"] == "div":
        return a / e["div"]
    a *= e["c"]
    return a


class AlgebraFailure(Exception):
    pass


def ev_real_checked(e):
    try:
        c = ev_real(e)
    except Exception as x:  # the operands are all Currents / scalars: any failure is the algebra's
        raise AlgebraFailure("%s: %s" % (type(x).__name__, str(x)[:120]))
    if not isinstance(c, pd.Series):
        raise AlgebraFailure("expression evaluated to %r, not a Current" % (c,))
    return c


def shape(e):
    if e["k"] == "reuse":
        return "R(" + shape(e["src"]) + ")"
    if e["k"] == "leaf":
        return "L" + e["form"][0]
    if e["k"] == "mul":
        return "M" + e["side"] + "(" + shape(e["a"]) + ")"
    return e["k"][0] + "(" + shape(e["a"]) + "," + shape(e["b"]) + ")"


def has_mul_operand(e):
    if e["k"] == "reuse":
        return False
    if e["k"] in ("add", "sub"):
        return e["a"]["k"] == "mul" or e["b"]["k"] == "mul" or has_mul_operand(e["a"]) or has_mul_operand(e["b"])
    if e["k"] == "mul":
        return has_mul_operand(e["a"])
    return False


def gen(rs, tier):
    r = sub(rs, "c12")
    n = r.randint(1, 8)
    stations = ["S%d" % i for i in range(n)]
    r.shuffle(stations)
    phases = {s: r.choice(PH) for s in stations}
    ops = []
    names = []
    dup_used = set()
    nops = r.randint(1, 25)
    counter = 0
    for _ in range(nops):
        k = r.random()
        if k < 0.4 or not names:
            nm = "n%d" % counter
            counter += 1
            q = r.random()
            if q < 0.12 and not any(o["op"] in ("remove", "update") for o in ops):
                nm = None
            elif q < 0.2 and names:
                cand = [x for x in names if x not in dup_used and x is not None and not x.endswith("_v2")]
                if r.random() < 0.35 and dup_used:
                    cand = sorted(dup_used)          # the same name a third time (its '_v2' alias is taken as well)
                if cand:
                    nm = r.choice(cand)
                    dup_used.add(nm)
            expr = gen_expr(r, stations)
            if r.random() < 0.06:
                expr = {"k": "add", "a": expr, "b": {"k": "leaf", "form": "dict", "terms": {"GHOST": 1}}}
            ops.append({"op": "add", "expr": expr, "limit": round(r.uniform(1, 500), 2), "name": nm, "aid": counter})
            names.append(nm if nm is not None else "?")
        elif k < 0.55:
            ops.append({"op": "remove", "pick": r.randrange(10 ** 6), "ghost": r.random() < 0.1})
        elif k < 0.72:
            ops.append({"op": "update", "pick": r.randrange(10 ** 6), "expr": gen_expr(r, stations),
                        "limit": round(r.uniform(1, 500), 2), "new_name": ("u%d" % counter) if r.random() < 0.4 else None,
                        "ghost": r.random() < 0.08, "ghost_station": r.random() < 0.07,
                        # 'derive': the new Current is derived from the row being replaced (same coefficients for a strict subset of
                        # its stations / the same row with another limit / one coefficient changed) instead of being unrelated
                        "derive": r.choice([None, None, None, "drop_station", "same_row", "one_changed", "drop_all"]),
                        "dseed": r.randrange(10 ** 6)})
            counter += 1
        elif k < 0.95:
            ops.append({"op": "query", "seed": r.randrange(10 ** 6), "subset": r.random() < 0.7, "times": r.random() < 0.5,
                        "linear": r.random() < 0.25})
        elif k < 0.975:
            ops.append({"op": "late_register", "existing": r.random() < 0.4})
        else:
            ops.append({"op": "roundtrip"})      # restart: the network is saved to JSON, loaded, and the history continues
    rq = sub(rs, "c12env")
    # a Current object that already IS a constraint is entered again, as it is or as a scalar multiple, without a name (a second
    # limit on the same aggregate): what the new row is called must not depend on the history of the object handed over
    rz = sub(rs, "zero_limit")
    for o_ in ops:
        if o_["op"] in ("add", "update") and rz.random() < 0.05:
            o_["limit"] = rz.choice([0, 0.0])       # a branch that is closed: a limit of exactly 0 A is a limit like any other
    rq = sub(rs, "readd")
    lim = next((i_ for i_, o_ in enumerate(ops) if o_["op"] in ("remove", "update")), len(ops))
    cand = [o_ for o_ in ops[:lim] if o_["op"] == "add" and o_["name"] is not None and "GHOST" not in json.dumps(o_["expr"])]
    if cand and rq.random() < 0.15:
        src = rq.choice(cand)
        pos = rq.randint(ops.index(src) + 1, lim)
        ops.insert(pos, {"op": "add", "expr": {"k": "reuse", "of": src["aid"], "c": rq.choice([None, None, 2, 0.5, -1]), "src": src["expr"]},
                         "limit": round(rq.uniform(1, 500), 2), "name": None, "aid": 10 ** 6})

    return {"seed": rs, "stations": stations, "phases": phases, "ops": ops,
            # environment: the caller runs with UserWarnings escalated to exceptions (python -W error::UserWarning, a strict test
            # configuration) and survives them: an operation that ends in such an exception must have changed nothing
            "strict_warnings": rq.random() < 0.2,
            # the container type in which subsets of constraint names are handed over
            "subset_form": rq.choice(["list", "list", "tuple", "set", "frozenset", "dict_keys", "dict", "ndarray", "index"])}


def compare_state(nw, rows, stations, out, i, what):
    df = nw.constraints_as_df() if nw.constraint_matrix is not None else None
    idx = list(nw.constraint_index)
    if sorted(idx) != sorted(r["name"] for r in rows) or len(idx) != len(rows):
        out.add("C12/names", "after op %d (%s): constraint_index %s, model names %s" % (i, what, idx, [r["name"] for r in rows]))
        return False
    if len(nw.magnitudes) != len(rows):
        out.add("C12/limits_length", "after op %d (%s): %d limits for %d constraints" % (i, what, len(nw.magnitudes), len(rows)))
        return False
    if not rows:
        if nw.constraint_matrix is not None and nw.constraint_matrix.shape[0] != 0:
            out.add("C12/matrix_rows", "after op %d: %s rows for 0 constraints" % (i, nw.constraint_matrix.shape))
            return False
        return True
    M = nw.constraint_matrix
    if M.shape != (len(rows), len(stations)) or list(df.columns) != stations or list(df.index) != idx:
        out.add("C12/matrix_shape", "after op %d (%s): matrix %s for %d constraints x %d stations" % (i, what, M.shape, len(rows), len(stations)))
        return False
    by = {r["name"]: r for r in rows}
    for j, nm in enumerate(idx):
        r = by[nm]
        if not math.isclose(float(nw.magnitudes[j]), r["limit"], rel_tol=1e-12):
            out.add("C12/limit", "after op %d (%s): constraint %s limit %r, model %r" % (i, what, nm, nw.magnitudes[j], r["limit"]))
            return False
        for c, s in enumerate(stations):
            v = float(M[j, c])
            w = r["coeffs"].get(s, 0.0)
            if v != v or abs(v - w) > 1e-9 * max(1.0, abs(w)):
                out.add("C12/coefficient", "after op %d (%s): constraint %s station %s coefficient %r, model %r" % (i, what, nm, s, v, w))
                return False
            if float(df.loc[nm, s]) != v and not (v != v):
                out.add("C12/df_mismatch", "constraints_as_df()[%s,%s] != matrix" % (nm, s))
                return False
    return True


def check(sc):
    import warnings
    out = Outcome()
    stations = sc["stations"]
    rows = []     # model: list of {"name","coeffs","limit"}
    ever = False
    log = []
    shapes = []
    try:
        with warnings.catch_warnings():
            warnings.simplefilter("ignore")
            nw = sut.ChargingNetwork()
            _POOL[0] = {}
            _ADDED[0] = {}
            for s in stations:
                nw.register_evse(sut.EVSE(s, max_rate=32), 208, sc["phases"][s])
            for i, op in enumerate(sc["ops"]):
                o = op["op"]
                names = [r["name"] for r in rows]
                if o == "add":
                    e = op["expr"]
                    shapes.append(shape(e))
                    coeffs = ev_model(e)
                    if e["k"] != "leaf":
                        out.probe("composed_current")
                    if has_mul_operand(e):
                        out.probe("scalar_multiple_operand")
                    if '"side": "neg"' in json.dumps(op["expr"]) or '"side": "div"' in json.dumps(op["expr"]):
                        out.probe("plain_series_operand")
                    if '"series"' in str(e).replace("'", '"'):
                        out.probe("series_leaf")
                    cur = ev_real_checked(e)
                    nm = op["name"]
                    if nm is None:
                        out.probe("unnamed")
                    if "GHOST" in coeffs:
                        try:
                            nw.add_constraint(cur, op["limit"], name=nm)
                            out.add("C12/unknown_station_accepted", "op %d added a constraint over an unregistered station" % i)
                            break
                        except KeyError:
                            out.probe("rejected_unknown_station")
                        if not compare_state(nw, rows, stations, out, i, "rejected add"):
                            break
                        continue
                    before = list(nw.constraint_index)
                    if sc.get("strict_warnings") and nm is not None and nm in names:
                        try:
                            with warnings.catch_warnings():
                                warnings.simplefilter("error", UserWarning)
                                nw.add_constraint(cur, op["limit"], name=nm)
                            raised_ = False
                            _ADDED[0][op.get("aid")] = cur
                        except UserWarning:
                            raised_ = True
                        if raised_:
                            out.probe("warning_as_error_survived")
                            if not compare_state(nw, rows, stations, out, i, "add under a taken name that ended in a UserWarning raised as an exception"):
                                break
                            continue
                    else:
                        twin = None
                        if nm is None:
                            # the same network state, the same limit, an equal Current that nobody has seen before
                            import copy as _copy
                            twin = _copy.deepcopy(nw)
                            twin.add_constraint(sut.Current(dict(coeffs)), op["limit"])
                        nw.add_constraint(cur, op["limit"], name=nm)
                        _ADDED[0][op.get("aid")] = cur
                        if e["k"] == "reuse":
                            out.probe("constraint_object_entered_again_unnamed")
                        if twin is not None and list(twin.constraint_index) != list(nw.constraint_index):
                            out.add("C12/unnamed_add_name_depends_on_object_history", "op %d: add_constraint(current, limit) without a name: names are now %s; the same "
                                    "call with an equal, brand-new Current on a copy of the network gives %s" % (i, list(nw.constraint_index), list(twin.constraint_index)))
                            break
                    ever = True
                    after = list(nw.constraint_index)
                    if len(set(after)) != len(after) and len(after) == len(before) + 1 and (nm is None or nm in names):
                        out.inconclusive += 1   # auto-generated / suffixed name collided: outside the stated assumptions
                        out.probe("name_collision_beyond_alias")
                        if not (nw.constraint_matrix.shape[0] == len(nw.magnitudes) == len(after)):
                            # ... but whatever the names are, there is one row, one limit and one name per constraint
                            out.add("C12/limits_length", "op %d (add under a name whose alias is taken too): %d rows, %d limits, %d names"
                                    % (i, nw.constraint_matrix.shape[0], len(nw.magnitudes), len(after)))
                        break
                    new = [x for x in after if x not in before] if len(set(after)) == len(after) else None
                    if len(after) != len(before) + 1 or not new or len(new) != 1:
                        out.add("C12/add_rows", "op %d: constraint_index %s -> %s" % (i, before, after))
                        break
                    if nm is not None and nm in names:
                        out.probe("duplicate_name")
                    elif nm is not None and new[0] != nm:
                        out.add("C12/add_name", "op %d: asked name %s got %s" % (i, nm, new[0]))
                        break
                    rows.append({"name": new[0], "coeffs": coeffs, "limit": float(op["limit"])})
                    log.append(("add", new[0]))
                elif o == "remove":
                    if op["ghost"] or not rows:
                        try:
                            nw.remove_constraint("no-such-constraint")
                            out.add("C12/remove_unknown_accepted", "op %d" % i)
                            break
                        except KeyError:
                            out.probe("rejected_unknown_name")
                    else:
                        nm = names[op["pick"] % len(names)]
                        nw.remove_constraint(nm)
                        rows = [r for r in rows if r["name"] != nm]
                        out.probe("remove")
                        log.append(("remove", nm))
                elif o == "update":
                    e = op["expr"]
                    shapes.append("U" + shape(e))
                    if op["ghost"] or not rows:
                        try:
                            nw.update_constraint("no-such-constraint", ev_real_checked(e), op["limit"])
                            out.add("C12/update_unknown_accepted", "op %d" % i)
                            break
                        except KeyError:
                            out.probe("rejected_unknown_name")
                    else:
                        nm = names[op["pick"] % len(names)]
                        new_name = op["new_name"]
                        if new_name is not None and new_name in names:
                            new_name = None
                        if op.get("ghost_station") and sum(1 for r_ in rows if r_["name"] == nm) == 1:
                            # the new Current names a station that was never registered: refused with KeyError, the caller carries
                            # on. The library implements update as remove + add, so afterwards the constraint is either untouched
                            # or gone - in both cases rows, limits and names must still line up
                            bad = {"k": "add", "a": e, "b": {"k": "leaf", "form": "dict", "terms": {"GHOST": 1}}}
                            try:
                                nw.update_constraint(nm, ev_real_checked(bad), op["limit"], new_name=new_name)
                                out.add("C12/update_unknown_station_accepted", "op %d" % i)
                                break
                            except KeyError:
                                out.probe("rejected_unknown_station")
                            t1, t2 = Outcome(), Outcome()
                            if compare_state(nw, rows, stations, t1, i, "refused update"):
                                pass
                            elif compare_state(nw, [r_ for r_ in rows if r_["name"] != nm], stations, t2, i, "refused update"):
                                rows = [r_ for r_ in rows if r_["name"] != nm]
                            else:
                                out.add("C12/state_after_refused_update", "op %d: after update_constraint(%r, <Current with an unregistered station>) was "
                                        "refused the network matches neither the state before (%s) nor the state with that constraint removed (%s)"
                                        % (i, nm, t1.viol[0][1][:120] if t1.viol else "?", t2.viol[0][1][:120] if t2.viol else "?"))
                                break
                            names = [r_["name"] for r_ in rows]
                            log.append(("update_refused", nm))
                            continue
                        old_row = next((r_ for r_ in rows if r_["name"] == nm), None)
                        if op.get("derive") and old_row is not None and sum(1 for r_ in rows if r_["name"] == nm) == 1:
                            rd = sub(op["dseed"], "derive")
                            terms = {k_: v_ for k_, v_ in old_row["coeffs"].items() if v_ != 0}
                            if op["derive"] == "drop_station" and len(terms) >= 2:
                                for k_ in rd.sample(sorted(terms), rd.randint(1, len(terms) - 1)):
                                    del terms[k_]
                            elif op["derive"] == "drop_all":
                                terms = {k_: 0 for k_ in terms}
                            elif op["derive"] == "one_changed" and terms:
                                k_ = rd.choice(sorted(terms))
                                terms[k_] = terms[k_] + rd.choice([1, -1, 0.5])
                            if terms:
                                e = {"k": "leaf", "form": "dict", "terms": terms}
                                out.probe("update_derived_from_old_row")
                        nw.update_constraint(nm, ev_real_checked(e), op["limit"], new_name=new_name)
                        rows = [r for r in rows if r["name"] != nm]
                        rows.append({"name": new_name or nm, "coeffs": ev_model(e), "limit": float(op["limit"])})
                        out.probe("update")
                        if new_name:
                            out.probe("update_new_name")
                        if e["k"] != "leaf":
                            out.probe("composed_current")
                        log.append(("update", nm, new_name))
                elif o == "late_register":
                    try:
                        late = "LATE%d" % i
                        if ever and op.get("existing") and stations:
                            # registering an id that is already registered, after constraints exist: refused like any other
                            # (phase angles and voltages of constrained stations are frozen)
                            late = stations[i % len(stations)]
                            out.probe("late_register_existing_id")
                        nw.register_evse(sut.EVSE(late, max_rate=32), 208, 0)
                        if ever:
                            out.add("C12/late_register_accepted", "op %d: register_evse succeeded although constraints exist/existed" % i)
                            break
                        # no constraint was ever added: registration is legitimate
                        stations = stations + [late]
                        sc = dict(sc, phases=dict(sc["phases"], **{late: 0}))
                    except sut.cn_mod.EVSERegistrationError:
                        if not ever:
                            out.add("C12/register_rejected_without_constraints", "op %d" % i)
                            break
                        out.probe("late_register_rejected")
                elif o == "roundtrip":
                    nw = sut.ChargingNetwork.from_json(nw.to_json())
                    out.probe("json_restart")
                    log.append(("roundtrip",))
                    if list(nw.station_ids) != stations:
                        out.add("C12/station_order_after_load", "op %d: loaded network lists stations %s, registered order %s"
                                % (i, list(nw.station_ids), stations))
                        break
                elif o == "query":
                    if not rows:
                        continue
                    r = sub(op["seed"], "q")
                    T = r.choice([1, 2, 3, 4, 4, 6, 8])
                    M = [[round(r.uniform(0, 32), 2) for _ in range(T)] for _ in stations]
                    idx = list(nw.constraint_index)
                    subset = None
                    if op["subset"]:
                        subset = r.sample(idx, r.randint(1, len(idx)))
                        if [x for x in idx if x in subset] != subset:
                            out.probe("subset_query_reordered")
                    tsel = None
                    if op["times"]:
                        tsel = [r.randrange(T) for _ in range(r.randint(1, T))]
                        tm = r.random()
                        if tm < 0.25 and T >= 3:          # a window of consecutive periods listed in another order
                            a_ = r.randrange(T - 2)
                            b_ = r.randint(a_ + 2, T - 1)
                            mid = list(range(a_ + 1, b_))
                            r.shuffle(mid)
                            tsel = [a_] + mid + [b_] if r.random() < 0.6 else r.sample(range(a_, b_ + 1), b_ - a_ + 1)
                            out.probe("time_window_permuted")
                        elif tm < 0.35:
                            tsel = list(range(T - 1, -1, -1))[: r.randint(1, T)]      # descending
                        elif tm < 0.45:
                            tsel = list(range(0, T, 2))                                # strided
                        elif tm < 0.6 and T >= 2:
                            # periods counted from the end (numpy's negative indices), incl. windows ending at -1 / crossing 0
                            k_ = r.randint(1, T)
                            tsel = r.choice([list(range(-k_, 0)), list(range(-1, -k_ - 1, -1)), [-1, 0], [-1]])
                            out.probe("time_window_negative")
                        out.probe("time_subset_query")
                    subset_arg = subset
                    sf = sc.get("subset_form", "list")
                    if subset is not None and sf != "list":
                        import pandas as _pd
                        subset_arg = {"tuple": tuple, "set": set, "frozenset": frozenset, "dict_keys": lambda x: dict.fromkeys(x).keys(),
                                      "dict": lambda x: dict.fromkeys(x, True), "ndarray": lambda x: np.array(x, dtype=object),
                                      "index": _pd.Index}[sf](subset)
                        out.probe("subset_as_" + sf)
                    got = nw.constraint_current(np.array(M), constraints=subset_arg, time_indices=tsel, linear=op["linear"])
                    by = {x["name"]: x for x in rows}
                    want_names = [x for x in idx if subset is None or x in subset]
                    cols = tsel if tsel is not None else list(range(T))
                    got = np.array(got)
                    if got.shape != (len(want_names), len(cols)):
                        out.add("C12/query_shape", "op %d: result %s for %d constraints x %d periods" % (i, got.shape, len(want_names), len(cols)))
                        break
                    bad = False
                    for a, nm in enumerate(want_names):
                        for b, t in enumerate(cols):
                            if op["linear"]:
                                # documented linearisation: phase ignored, absolute value of every load coefficient
                                w = abs(sum(abs(by[nm]["coeffs"].get(s, 0.0)) * M[k][t] for k, s in enumerate(stations)))
                            else:
                                w = sum(by[nm]["coeffs"].get(s, 0.0) * M[k][t] * cmath.exp(1j * math.radians(sc["phases"][s]))
                                        for k, s in enumerate(stations))
                            if abs(complex(got[a, b]) - w) > 1e-7 * max(1.0, abs(w)):
                                out.add("C12/query_value", "op %d: row %d (%s) period %d got %r, model %r (requested %s, network order %s)"
                                        % (i, a, nm, t, complex(got[a, b]), w, subset, idx))
                                bad = True
                                break
                        if bad:
                            break
                    if bad:
                        break
                    rt = sub(op["seed"], "threads")
                    if rt.random() < 0.15:
                        # two caller threads ask one network object different subset questions at the same time; the seed decides
                        # the interleaving of their steps inside the library; each must get the rows and columns it gets alone
                        from ..threads import Interleaver
                        M2 = [[round(rt.uniform(0, 32), 2) for _ in range(T)] for _ in stations]
                        sub2 = rt.sample(idx, rt.randint(1, len(idx)))
                        lin2 = rt.random() < 0.5
                        jobs = [lambda: np.array(nw.constraint_current(np.array(M), constraints=subset, time_indices=tsel, linear=op["linear"])),
                                lambda: np.array(nw.constraint_current(np.array(M2), constraints=sub2, linear=lin2))]
                        alone = [j_() for j_ in jobs]
                        res_, info_ = Interleaver(sub(op["seed"], "interleave"), sut.in_repo).run(jobs)
                        out.probe("concurrent_callers")
                        out.probe("thread_switches", info_["switches"])
                        for (kind_, val_), alone_, nm_ in zip(res_, alone, ("first", "second")):
                            if kind_ == "exc":
                                from ..driver import classify_exception
                                if classify_exception(val_) == "harness":
                                    raise val_
                                out.add("C12/concurrent_callers", "op %d: two threads calling constraint_current on one network: %s: %s (interleaving %s)"
                                        % (i, type(val_).__name__, str(val_)[:100], info_["order"][:30]))
                                bad = True
                                break
                            if val_.shape != alone_.shape or not np.array_equal(val_, alone_):
                                out.add("C12/concurrent_callers", "op %d: two threads calling constraint_current on one network (interleaving %s): the %s caller "
                                        "got %s, alone it gets %s" % (i, info_["order"][:30], nm_, val_.tolist(), alone_.tolist()))
                                bad = True
                                break
                        if bad:
                            break
                    continue
                changed = [(k_, dict(o_), sp_) for k_, (o_, sp_) in (_POOL[0] or {}).items()
                           if {a_: float(b_) for a_, b_ in dict(o_).items()} != {a_: float(b_) for a_, b_ in sp_.items()}]
                if changed:
                    out.add("C12/shared_operand_changed", "after op %d (%s): a Current that was only ever an operand of + / - / scalar multiples now reads %s, "
                            "it was built as %s (every operation of the algebra returns a new Current)" % (i, o, changed[0][1], changed[0][2]))
                    break
                if _POOL[0]:
                    out.probe("shared_operand_world")
                if not compare_state(nw, rows, stations, out, i, o):
                    break
    except AlgebraFailure as e:
        out.add("C12/current_algebra", "%s for expression %s" % (e, shapes[-1] if shapes else "?"))
    except Exception as e:
        from ..driver import classify_exception
        if classify_exception(e) == "harness":
            raise
        out.add("C12/exception:" + type(e).__name__, str(e)[:200])
    out.nontrivial = (out.probes.get("remove", 0) + out.probes.get("update", 0)) > 0 and out.probes.get("composed_current", 0) > 0
    out.sig = digest([shapes, [o["op"] for o in sc["ops"]]])
    out.digest = digest(log)
    out.calls = len(sc["ops"])
    return out
