"""C11 - event queue returns events by time then precedence, for every interleaving of operations (+ JSON restart)."""
import json
from .. import sut
from ..engine import Outcome
from ..rng import sub, digest
from ..shrink import ops_candidates

ID = "C11"
RUNS = {"quick": 120000, "thorough": 1500000}
BUDGET = {"quick": 40, "thorough": 700}
CHUNK = 2000
DET_EVERY = 500
RULE = ("operation sequences (1-60 ops) over add_event/add_events/get_event/get_current_events(t)/len/empty/"
        "get_last_timestamp/queue/JSON round trip/constructor list, timestamps from a small range (many ties), all event "
        "types incl. base Event; checked op by op against a sorted-list model; non-trivial = >=1 insertion between "
        "retrievals and >=1 timestamp tie; distinct = distinct operation-kind/timestamp sequence")
PROBES = ["tie_same_ts", "tie_same_ts_and_prec", "insert_between_retrievals", "roundtrip", "roundtrip_then_ops",
          "get_current_below_all", "get_current_partial", "nonmonotone_t", "drained_then_reused", "base_event",
          "restored_vs_original_compared", "failed_bulk_insert", "user_set_precedence", "batch_of_512_or_more", "checkpoint_with_another_heap_layout", "str_or_repr_taken", "handed_out_event_queued_again", "earlier_result_lists_kept"]
FAULT_DIMENSION = "restart (JSON round trip of the queue at arbitrary points of the operation sequence); a bulk insert that fails part-way (non-event element) and is survived by the caller"
REAL_VS_STUB = "real: EventQueue, Event classes, EV, Battery, BaseSimObj JSON; ours: sorted-list reference model"
ASSUMPTIONS = ["get_event on an empty queue is not generated (unspecified)",
               "order inside one (timestamp, precedence) class is unconstrained: compared as multisets"]
PREC = {"Unplug": 0, "Plugin": 10, "Recompute": 20, "Event": float("inf")}


def candidates(sc):
    return ops_candidates(sc, "ops")


def _spec(r, nsess, tmax, tmin=0):
    typ = r.choice(["Plugin", "Plugin", "Unplug", "Unplug", "Recompute", "Event"])
    d = {"type": typ, "ts": r.randint(tmin, tmax)}
    if typ in ("Plugin", "Unplug"):
        d["sess"] = "s%d" % r.randrange(nsess)
        if r.random() < 0.08:
            # both records of a zero-length session, stamped with its (single) period
            k_ = r.randrange(3)
            d["sess"] = "z%d" % k_
            d["ts"] = 2 + k_ % 3
    if r.random() < 0.05:
        # the caller re-ranks an event: precedence is a documented, serialised attribute (the one ties are broken by)
        d["prec"] = r.choice([5, 15, 0, 10, 20, -1, 0.5, 25, float("inf"), float("-inf")])
    return d


def gen(rs, tier):
    r = sub(rs, "ops")
    nsess = r.randint(1, 4)
    tmax = r.choice([2, 4, 6, 10, 30])
    tmin = r.choice([0, 0, 0, 0, -3, -40])      # sessions dated before the simulation start have negative period indices
    init = [_spec(r, nsess, tmax, tmin) for _ in range(r.choice([0, 0, 1, 3, 8]))] if r.random() < 0.6 else None
    n = r.randint(1, 60 if tier == "thorough" else 40)
    ops = []
    for _ in range(n):
        k = r.random()
        if k < 0.3:
            ops.append({"op": "add", "e": _spec(r, nsess, tmax, tmin)})
        elif k < 0.37:
            nb = r.randint(0, 5) if r.random() < 0.97 else r.randint(34, 130)      # now and then a backlog of dozens of events
            if sub(rs, "giant_batch", len(ops)).random() < 0.004:
                nb = sub(rs, "giant_batch_n", len(ops)).randint(512, 1300)           # weeks of sessions loaded with one call
            ops.append({"op": "add_many", "es": [_spec(r, nsess, tmax, tmin) for _ in range(nb)]})
        elif k < 0.4:
            # fault inside a bulk insert: one element of the batch is not an event (None); the call fails part-way, the caller
            # catches the error and carries on with the queue
            es = [_spec(r, nsess, tmax, tmin) for _ in range(r.randint(1, 5))]
            ops.append({"op": "add_many_fault", "es": es, "at": r.randint(0, len(es))})
        elif k < 0.55:
            ops.append({"op": "get"})
        elif k < 0.72:
            ops.append({"op": "get_current", "t": r.randint(tmin - 1, tmax + 1)})
        elif k < 0.78:
            ops.append({"op": "len"})
        elif k < 0.83:
            ops.append({"op": "empty"})
        elif k < 0.9:
            ops.append({"op": "last_ts"})
        elif k < 0.94:
            ops.append({"op": "queue"})
            if sub(rs, "readd", len(ops)).random() < 0.5:
                # an event object that the queue handed out earlier is queued again (a timer event re-armed by its handler), as it is or
                # with a new timestamp
                rr_ = sub(rs, "readd", len(ops))
                ops.append({"op": "readd", "pick": rr_.randrange(10 ** 6), "ts": rr_.choice([None, None, rr_.randint(tmin, tmax + 3)])})
            if sub(rs, "show", len(ops)).random() < 0.5:
                ops.append({"op": "show"})       # the caller prints / logs the queue (str, repr, len, bool, iteration over the read-only view)
        else:
            ops.append({"op": "roundtrip", "via": r.choice(["str", "str", "buf", "other_layout"])})
    return {"seed": rs, "init": init, "ops": ops, "nsess": nsess}


class World:
    def __init__(self):
        self.evs = {}

    def ev(self, sid):
        if sid not in self.evs:
            if sid.startswith("z"):
                # a zero-length session (the car left within the period it arrived in): arrival == departure
                t0 = 2 + int(sid[1:]) % 3
                self.evs[sid] = sut.EV(t0, t0, 5.0, "st-" + sid, sid, sut.Battery(10, 0, 6))
            else:
                self.evs[sid] = sut.EV(0, 10, 5.0, "st-" + sid, sid, sut.Battery(10, 0, 6))
        return self.evs[sid]

    def make(self, d):
        t = d["type"]
        if t == "Plugin":
            e = sut.PluginEvent(d["ts"], self.ev(d["sess"]))
        elif t == "Unplug":
            e = sut.UnplugEvent(d["ts"], self.ev(d["sess"]))
        elif t == "Recompute":
            e = sut.RecomputeEvent(d["ts"])
        else:
            e = sut.Event(d["ts"])
        if d.get("prec") is not None:
            e.precedence = d["prec"]
        return e


def key_of(e):
    typ = {"Plugin": "Plugin", "Unplug": "Unplug", "Recompute": "Recompute"}.get(e.event_type, "Event")
    return (e.timestamp, typ, getattr(getattr(e, "ev", None), "session_id", None), None if e.precedence == PREC[typ] else e.precedence)


def mkey(d):
    return (d["ts"], d["type"], d.get("sess"), None if d.get("prec") is None or d["prec"] == PREC[d["type"]] else d["prec"])


def prec_of(k):
    return PREC[k[1]] if k[3] is None else k[3]


def check(sc):
    import io
    import warnings
    out = Outcome()
    w = World()
    model = []   # list of keys (ts, type, sess)
    log = []
    try:
        with warnings.catch_warnings():
            warnings.simplefilter("ignore")
            if sc["init"] is not None:
                q = sut.EventQueue([w.make(d) for d in sc["init"]])
                model.extend(mkey(d) for d in sc["init"])
            else:
                q = sut.EventQueue()
            shadow = None          # the original queue of the last JSON round trip: fed the same operations from then on
            w_sh = None
            last_retrieval = None
            inserted_since = False
            last_t = None
            after_rt = False
            handed = []            # event objects the queue has handed out
            kept = []              # (op index, the list object returned by get_current_events, the keys it held then)

            def order(k):
                return (k[0], prec_of(k))

            for i, op in enumerate(sc["ops"]):
                o = op["op"]
                if o == "add":
                    if not model and log and any(x[0] in ("get", "get_current") for x in log):
                        out.probe("drained_then_reused")
                    q.add_event(w.make(op["e"]))
                    if shadow is not None:
                        shadow.add_event(w_sh.make(op["e"]))
                    model.append(mkey(op["e"]))
                    inserted_since = True
                    if op["e"]["type"] == "Event":
                        out.probe("base_event")
                    log.append(("add", op["e"]["ts"]))
                elif o == "add_many":
                    q.add_events([w.make(d) for d in op["es"]])
                    if shadow is not None:
                        shadow.add_events([w_sh.make(d) for d in op["es"]])
                    model.extend(mkey(d) for d in op["es"])
                    inserted_since = inserted_since or bool(op["es"])
                    log.append(("add_many", len(op["es"])))
                elif o == "add_many_fault":
                    from collections import Counter
                    from ..driver import classify_exception as _cls
                    conts = []
                    for qq, ww in ((q, w), (shadow, w_sh)):
                        if qq is None:
                            continue
                        batch = [ww.make(d) for d in op["es"]]
                        batch.insert(op["at"], None)
                        try:
                            qq.add_events(batch)
                        except Exception as x:
                            if _cls(x) == "harness":
                                raise
                        conts.append(Counter(key_of(e) for _, e in qq.queue))
                    out.probe("failed_bulk_insert")
                    cont = conts[0]
                    extra = cont - Counter(model)
                    if (Counter(model) - cont) or (extra - Counter(mkey(d) for d in op["es"])):
                        out.add("C11/failed_bulk_insert_content", "op %d: after a bulk insert that failed part-way the queue holds %s; pending before "
                                "%s, batch %s" % (i, sorted(cont.elements(), key=str)[:8], sorted(model, key=str)[:8], [mkey(d) for d in op["es"]]))
                        break
                    if len(conts) > 1 and conts[1] != cont:
                        out.add("C11/restored_differs_from_original", "op %d failed bulk insert: restored queue holds %s, original %s"
                                % (i, sorted(cont.elements(), key=str)[:8], sorted(conts[1].elements(), key=str)[:8]))
                        break
                    if extra:
                        inserted_since = True
                    model = list(cont.elements())     # whatever part of the batch was taken in is pending from here on
                    log.append(("add_many_fault", len(op["es"]), sum(extra.values())))
                elif o == "get":
                    if not model:
                        continue
                    e = q.get_event()
                    handed.append(e)
                    k = key_of(e)
                    if shadow is not None:
                        ks_ = key_of(shadow.get_event())
                        out.probe("restored_vs_original_compared")
                        if ks_ != k:
                            out.add("C11/restored_differs_from_original", "op %d get_event: restored queue returned %s, the original it was "
                                    "saved from returned %s" % (i, k, ks_))
                            break
                    best = min(order(m) for m in model)
                    if k not in model:
                        out.add("C11/get_event_unknown", "op %d returned %s not pending %s" % (i, k, sorted(model, key=order)[:6]))
                        break
                    if order(k) != best:
                        out.add("C11/get_event_order", "op %d returned %s but %s is pending" % (i, k, min(model, key=order)))
                        break
                    model.remove(k)
                    if last_retrieval is not None and inserted_since:
                        out.probe("insert_between_retrievals")
                    last_retrieval = i
                    inserted_since = False
                    log.append(("get", k[0]))
                    if after_rt:
                        out.probe("roundtrip_then_ops")
                elif o == "get_current":
                    t = op["t"]
                    lst_ = q.get_current_events(t)
                    handed.extend(lst_)
                    res = [key_of(e) for e in lst_]
                    for j_, old_, keys_ in kept:
                        if [key_of(e_) for e_ in old_] != keys_:
                            out.add("C11/earlier_result_changed", "op %d: the list returned by get_current_events at op %d held %s then and holds %s now"
                                    % (i, j_, keys_[:6], [key_of(e_) for e_ in old_][:6]))
                            break
                    if out.viol:
                        break
                    if len(kept) < 6:
                        kept.append((i, lst_, list(res)))
                        out.probe("earlier_result_lists_kept")
                    if shadow is not None:
                        rs_ = [key_of(e) for e in shadow.get_current_events(t)]
                        out.probe("restored_vs_original_compared")
                        if rs_ != res:
                            out.add("C11/restored_differs_from_original", "op %d get_current_events(%d): restored queue returned %s, the "
                                    "original it was saved from returned %s" % (i, t, res[:8], rs_[:8]))
                            break
                    want = [m for m in model if m[0] <= t]
                    if sorted(res, key=str) != sorted(want, key=str):
                        out.add("C11/get_current_set", "op %d t=%d returned %s, pending with ts<=t %s" % (i, t, res[:8], sorted(want, key=order)[:8]))
                        break
                    ks = [order(k) for k in res]
                    if ks != sorted(ks):
                        out.add("C11/get_current_order", "op %d t=%d returned %s" % (i, t, res[:10]))
                        break
                    for k in res:
                        model.remove(k)
                    if model and not want:
                        out.probe("get_current_below_all")
                    if model and want:
                        out.probe("get_current_partial")
                    if last_t is not None and t < last_t:
                        out.probe("nonmonotone_t")
                    last_t = t
                    if last_retrieval is not None and inserted_since:
                        out.probe("insert_between_retrievals")
                    last_retrieval = i
                    inserted_since = False
                    log.append(("get_current", t, len(res)))
                    if after_rt:
                        out.probe("roundtrip_then_ops")
                elif o == "len":
                    if len(q) != len(model):
                        out.add("C11/len", "op %d len %d model %d" % (i, len(q), len(model)))
                        break
                elif o == "empty":
                    if q.empty() != (len(model) == 0):
                        out.add("C11/empty", "op %d empty() %r with %d pending" % (i, q.empty(), len(model)))
                        break
                elif o == "last_ts":
                    want = max(m[0] for m in model) if model else None
                    got = q.get_last_timestamp()
                    if got != want:
                        out.add("C11/last_timestamp", "op %d got %r, pending max %r" % (i, got, want))
                        break
                elif o == "queue":
                    got = sorted((key_of(e) for _, e in q.queue), key=str)
                    if got != sorted(model, key=str) or any(ts != e.timestamp for ts, e in q.queue):
                        out.add("C11/queue_property", "op %d queue %s model %s" % (i, got[:8], sorted(model, key=str)[:8]))
                        break
                elif o == "readd":
                    pend_ = {id(e_) for _, e_ in q.queue}
                    cand_ = [e_ for e_ in handed if id(e_) not in pend_]
                    if cand_:
                        e = cand_[op["pick"] % len(cand_)]
                        if op.get("ts") is not None:
                            e.timestamp = op["ts"]
                        q.add_event(e)
                        model.append(key_of(e))
                        shadow, w_sh = None, None        # (the original queue of an earlier round trip holds other objects: no twin from here on)
                        # the lists handed out earlier may hold this very object: what they held then is judged by identity from here on
                        kept = [(j_, old_, [key_of(x_) for x_ in old_]) for j_, old_, _ in kept]
                        inserted_since = True
                        out.probe("handed_out_event_queued_again")
                elif o == "show":
                    for qq in (q, shadow):
                        if qq is not None:
                            str(qq), repr(qq), bool(qq), len(qq), [str(e_) for _, e_ in qq.queue], [repr(e_) for _, e_ in qq.queue]
                    out.probe("str_or_repr_taken")
                elif o == "roundtrip":
                    w_prev = w
                    if op["via"] == "str":
                        q2 = sut.EventQueue.from_json(q.to_json())
                    elif op["via"] == "other_layout":
                        # a checkpoint of the same pending set whose heap array is laid out differently: the released library writes
                        # whatever layout its own history of pushes and pops produced, and every valid layout is such a checkpoint
                        import heapq as _hq
                        import json as _json
                        doc = _json.loads(q.to_json())
                        cd = doc["context_dict"]
                        qd = next(v_ for v_ in cd.values() if v_["class"].endswith(".EventQueue"))
                        ent = list(qd["attributes"]["_queue"])
                        rl = sub(sc["seed"], "layout", i)
                        rl.shuffle(ent)
                        heap_ = []
                        for n_, (ts_, eid_) in enumerate(ent):
                            _hq.heappush(heap_, (ts_, cd[str(eid_)]["attributes"]["precedence"], rl.random(), n_, eid_))
                        qd["attributes"]["_queue"] = [[h_[0], h_[4]] for h_ in heap_]
                        q2 = sut.EventQueue.from_json(_json.dumps(doc))
                        other_layout = True
                        out.probe("checkpoint_with_another_heap_layout")
                    else:
                        b = io.StringIO()
                        q.to_json(b)
                        b.seek(0)
                        q2 = sut.EventQueue.from_json(b)
                    got = sorted((key_of(e) for _, e in q2.queue), key=str)
                    if got != sorted(model, key=str):
                        out.add("C11/roundtrip_content", "op %d loaded %s model %s" % (i, got[:8], sorted(model, key=str)[:8]))
                        break
                    by = {}
                    for _, e in q2.queue:
                        ev = getattr(e, "ev", None)
                        if ev is not None and by.setdefault(ev.session_id, ev) is not ev:
                            out.add("C11/roundtrip_shared_ev", "op %d session %s has two EV objects after load" % (i, ev.session_id))
                    shadow, w_sh = (None, None) if op["via"] == "other_layout" else (q, w)     # (ties may pop in another order from another layout)
                    q = q2
                    w = World()
                    for sid_, ev_ in (w_sh.evs if w_sh is not None else w_prev.evs).items():
                        w.evs[sid_] = sut.EV(ev_.arrival, ev_.departure, ev_.requested_energy, ev_.station_id, sid_, sut.Battery(10, 0, 6))
                    for _, e in q.queue:
                        ev = getattr(e, "ev", None)
                        if ev is not None:
                            w.evs[ev.session_id] = ev
                    out.probe("roundtrip")
                    handed = []           # (events handed out before the restart reference the EV objects of before the restart)
                    after_rt = True
                    log.append(("roundtrip",))
            # final drain must come out in order
            if not out.viol:
                rest = []
                while not q.empty():
                    rest.append(key_of(q.get_event()))
                if shadow is not None:
                    rest_sh = []
                    while not shadow.empty():
                        rest_sh.append(key_of(shadow.get_event()))
                    out.probe("restored_vs_original_compared")
                    if rest_sh != rest:
                        out.add("C11/restored_differs_from_original", "final drain: restored queue %s, original %s" % (rest[:10], rest_sh[:10]))
                ks = [order(k) for k in rest]
                if sorted(rest, key=str) != sorted(model, key=str) or ks != sorted(ks):
                    out.add("C11/final_drain", "drained %s, model %s" % (rest[:10], sorted(model, key=order)[:10]))
    except Exception as e:
        from ..driver import classify_exception
        if classify_exception(e) == "harness":
            raise
        out.add("C11/exception:" + type(e).__name__, str(e)[:200])
    allk = [mkey(op["e"]) for op in sc["ops"] if op["op"] == "add"] + [mkey(d) for op in sc["ops"] if op["op"] in ("add_many", "add_many_fault") for d in op["es"]] + [mkey(d) for d in (sc["init"] or [])]
    ts = [k[0] for k in allk]
    tie = len(ts) != len(set(ts))
    tp = [(k[0], prec_of(k)) for k in allk]
    out.probe("user_set_precedence", sum(1 for k in allk if k[3] is not None))
    out.probe("batch_of_512_or_more", sum(1 for op in sc["ops"] if op["op"] == "add_many" and len(op["es"]) >= 512))
    out.probe("tie_same_ts", 1 if tie else 0)
    out.probe("tie_same_ts_and_prec", 1 if len(tp) != len(set(tp)) else 0)
    out.nontrivial = tie and out.probes.get("insert_between_retrievals", 0) > 0
    out.sig = digest([(o["op"], o.get("t"), o.get("e", {}).get("ts")) for o in sc["ops"]])
    out.digest = digest(log)
    out.calls = len(sc["ops"])
    out.faults = {n_: out.probes[k_] for k_, n_ in (("failed_bulk_insert", "failed_bulk_insert"), ("roundtrip", "json_restart")) if out.probes.get(k_)}
    return out
