"""C10 - results are deterministic and independent of incidental ordering (metamorphic pairs; hash seed; time shift)."""
import copy
import json
import os
import subprocess
import sys
from .. import sut, world, driver
from ..rng import sub, run_seed
from ..worldprop import base_outcome, completion, REAL_VS_STUB  # noqa

np = sut.np
ID = "C10"
RUNS = {"quick": 2000, "thorough": 70000}
BUDGET = {"quick": 45, "thorough": 780}
RULE = ("each run = a reference world plus transformed twins: identical rebuild, JSON clone of the initial simulator, permuted station registration order, "
        "permuted constraint order and term order, permuted session list order, all events shifted by k in {1,7,100}; "
        "after the pool, a sample of worlds is re-run in a fresh interpreter under another PYTHONHASHSEED; scripted, "
        "uncontrolled and finite-rate greedy parties; non-trivial = a non-identity permutation with >=1 binding constraint "
        "(some pilot below its station maximum while demand remains); distinct = history signature + transformation set")
PROBES = ["unnamed_limits_with_withdrawn_draft", "recorded_arrival_before_plugin_period", "rebuild_pair", "registration_permuted", "constraints_permuted", "sessions_permuted", "shift_pair",
          "hashseed_fresh_interpreter", "sorted_finite_world", "guard_band_skips", "json_clone_pair", "deepcopy_pair", "one_noisy_battery_world", "json_clone_permuted_pair", "second_life_pair", "second_life_other_registration_order",
          "uninterrupted_world", "training_records_listed_in_another_order"]
FAULT_DIMENSION = "reordering / hash seed / time shift as metamorphic schedule dimension (no faults injected)"
ASSUMPTIONS = ["sorted parties are compared under permutations only when every priority key gap and feasibility margin of the "
               "reference run is outside a 1e-7 guard band (else inconclusive)",
               "the scripted party answers {} before the first event (otherwise 'never run' recomputes at period 0 are not shift-invariant by the property's own C05 rule)",
               "tolerance: exact for rebuild / hash seed / session order / shift; 1e-9 for registration and constraint permutations (float summation order)"]
DETERMINISTIC = True
P_SCRIPT = world.profile(party={"scripted": 3, "uncontrolled": 2}, constraints={"three": 3, "single": 1, "none": 1},
                         noise=0.0, stations=(2, 6))
P_SORTED = world.profile(party={"greedy": 1}, evse_kinds={"finite": 1}, constraints={"three": 4, "single": 1},
                         binding=(0.15, 0.8), estimator={"none": 1}, uninterrupted=0.4, noise=0.0, hot=0.1, stations=(2, 6),
                         heterovolt=0.9, sorted_max_recompute=[1, 1, 1, 2, 3, None])


def gen(rs, tier):
    sc = world.gen_world(rs, P_SORTED if rs % 3 == 0 else P_SCRIPT)
    r = sub(rs, "overdue")
    if sc["party"].get("sort") in ("edf", "llf") and r.random() < 0.6:
        # drivers stay longer than they said: estimated departures well before the real ones, all different
        used = set()
        for s_ in sc["sessions"]:
            stay = s_["departure"] - s_["arrival"]
            e_ = s_["arrival"] + max(1, stay // r.choice([2, 3, 4]))
            while e_ in used:
                e_ += 1
            used.add(e_)
            s_["est_departure"] = e_
    rn = sub(rs, "one_noisy")
    l2 = [s_ for s_ in sc["sessions"] if s_["battery"]["type"] == "Linear2Stage"]
    if sc["party"]["kind"] in ("scripted", "uncontrolled") and len(l2) >= 2 and rn.random() < 0.25:
        # exactly one battery of the world is noisy: it is the only consumer of the environment's random stream, so its draws -
        # hence all outputs - do not depend on which (noise-free) batteries are registered or charged before it
        rn.choice(l2)["battery"]["noise"] = rn.choice([0.3, 1.0])
        sc["tapes"]["noise"] = "prng"
        sc["one_noisy_battery"] = True
    re_ = sub(rs, "recorded_arrival")
    if re_.random() < 0.25:
        # vehicles whose own record says they arrived before the period of their plug-in event (already on site when the window
        # opens, plug-in queued late): the recorded arrival stays what the input says, and is what arrival-keyed sorting sees
        for s_ in sc["sessions"]:
            if re_.random() < 0.6:
                s_["ev_arrival"] = s_["arrival"] - re_.randint(1, 6)
        sc["recorded_arrival_before_plugin"] = True
    rd = sub(rs, "draft")
    cs_ = sc["network"]["constraints"]
    if len(cs_) >= 2 and not sc.get("reconfig") and rd.random() < 0.2:
        # the site is set up by hand: limits entered without names (the network numbers them), a named draft limit entered
        # somewhere in between and withdrawn again before the last limit goes in
        for c_ in cs_:
            c_["unnamed"] = True
        st_ = rd.choice(sc["network"]["stations"])["id"]
        sc["network"]["draft"] = {"at": rd.randrange(len(cs_)), "name": "draft", "coeffs": {st_: 1.0}, "limit": 5.0}
    sc["party"]["quiet_prefix"] = True
    sc["network"]["violation_tolerance"] = 1e-5
    sc["network"]["relative_tolerance"] = 1e-7
    return sc


def result_of(sc, snapshot=False):
    tr = driver.run_world(sc, observe=0, snapshot=snapshot)
    ids = tr.sim.network.station_ids
    n = tr.sim.iteration
    want_ids = sorted(s_["id"] for s_ in sc["network"]["stations"]) if sc["network"].get("kind", "custom") == "custom" else sorted(ids)
    if sorted(ids) != want_ids or len(ids) != tr.sim.pilot_signals.shape[0]:
        return tr, {"corrupt": "after the run network.station_ids reads %s; the network was built with %s (%d result rows)" % (ids[:8], want_ids[:8], tr.sim.pilot_signals.shape[0]),
                    "exc": None, "iteration": n, "pilots": {}, "rates": {}, "energy": {}, "events": [], "digest": tr.digest}
    res = {"exc": None if tr.exc is None else type(tr.exc).__name__, "iteration": n,
           "pilots": {s: [float(x) for x in tr.sim.pilot_signals[i, :n]] for i, s in enumerate(ids)},
           "rates": {s: [float(x) for x in tr.sim.charging_rates[i, :n]] for i, s in enumerate(ids)},
           "energy": {k: float(v.energy_delivered) for k, v in tr.sim.ev_history.items()},
           "events": sorted((e.timestamp, e.event_type, str(getattr(getattr(e, "ev", None), "session_id", None))) for e in tr.sim.event_history),
           "digest": tr.digest, "width": int(tr.sim.pilot_signals.shape[1]), "rate_width": int(tr.sim.charging_rates.shape[1])}
    # the same outputs as a user reads them: the labelled tables (one column per station id)
    for key_, fn_ in (("pilots_table", "pilot_signals_as_df"), ("rates_table", "charging_rates_as_df")):
        df_ = getattr(tr.sim, fn_)()
        if len(set(ids)) == len(ids) and list(df_.columns) and len(set(df_.columns)) == len(df_.columns):
            res[key_] = {s: [float(x) for x in df_[s].to_numpy()[:n]] for s in df_.columns}
    # ... and the line currents under each limit's name, asked for in one fixed order (by name), whatever order the limits were entered in
    names_ = sorted(c_["name"] for c_ in sc["network"]["constraints"] if not c_.get("unnamed"))
    if names_ and tr.exc is None and len(set(names_)) == len(names_) and not sc.get("reconfig"):
        from acnportal.acnsim import analysis as _an
        try:
            cc_ = _an.constraint_currents(tr.sim, return_magnitudes=True, constraint_ids=list(names_))
            res["line_currents"] = {k_: [float(x) for x in cc_[k_][:n]] for k_ in cc_}
        except KeyError:
            pass            # (a limit that was withdrawn during set-up: nothing to compare)
    return tr, res


def differ(a, b, tol, shift=0):
    if a["exc"] != b["exc"]:
        return "exception %s vs %s" % (a["exc"], b["exc"])
    if b["iteration"] != a["iteration"] + shift:
        return "iteration %d vs %d (shift %d)" % (a["iteration"], b["iteration"], shift)
    if shift == 0 and "width" in a and "width" in b and (a["width"], a["rate_width"]) != (b["width"], b["rate_width"]):
        return "result matrices are %d / %d periods wide vs %d / %d (pilots / rates) for equal inputs" % (a["width"], a["rate_width"], b["width"], b["rate_width"])
    for key in ("pilots", "rates", "pilots_table", "rates_table", "line_currents"):
        if key not in a or key not in b:
            continue
        if set(a[key]) != set(b[key]):
            return "%s station sets differ" % key
        for s, row in a[key].items():
            rb = b[key][s]
            if shift and any(x != 0 for x in rb[:shift]):
                return "%s[%s] non-zero in the %d leading periods of the shifted run" % (key, s, shift)
            rb = rb[shift:]
            if len(rb) != len(row):
                return "%s[%s] length %d vs %d" % (key, s, len(row), len(rb))
            tol_k = max(tol, 1e-9) if key == "line_currents" else tol     # (a matrix product: the summation order may follow the array shapes)
            for t, (x, y) in enumerate(zip(row, rb)):
                if abs(x - y) > tol_k * max(1.0, abs(x)):
                    return "%s[%s][%d] = %r vs %r" % (key, s, t, x, y)
    if set(a["energy"]) != set(b["energy"]):
        return "session sets differ"
    for k, x in a["energy"].items():
        if abs(x - b["energy"][k]) > tol * max(1.0, abs(x)):
            return "energy[%s] = %r vs %r" % (k, x, b["energy"][k])
    ea = a["events"]
    eb = [(t - shift, k, s) for t, k, s in b["events"]]
    if ea != eb:
        return "event histories differ: %s vs %s" % (ea[:6], eb[:6])
    return None


def sorted_conclusive(sc, tr):
    """True if every decision of the reference greedy run is outside a 1e-7 guard band."""
    from ..models import alloc, phasor
    from ..sortedworld import truth_sessions, cons_of
    from ..world import evse_levels
    cons = cons_of(sc)
    phases = [s["phase"] for s in sc["network"]["stations"]]
    ids = [s["id"] for s in sc["network"]["stations"]]
    period = sc["sim"]["period"]
    for c in tr.calls:
        if not c.get("completed"):
            continue
        truth = truth_sessions(sc, tr, c["t"])
        act = []
        for x in truth:
            thr = max(1e-3, x["min_pilot"] * x["voltage"] / (60.0 / period) / 1000.0)
            if abs(x["remaining"] - thr) < 1e-7 or abs(x["remaining"] - 1e-3) < 1e-7:
                return False
            if x["remaining"] > thr:
                act.append(x)
        keys = alloc.priority_keys(sc["party"]["sort"], act, c["t"])
        if not alloc.distinct(keys, eps=1e-7):
            return False
        vec = [c["schedule"][s][0] for s in ids]
        order = [x for _, x in sorted(zip(keys, act), key=lambda z: z[0])]
        rates = [0.0] * len(ids)
        if sc["party"].get("uninterrupted"):
            # minimum pilots are pre-granted in order of remaining time; only calls whose pre-allocation does not hinge on a
            # tie (every order consistent with the ties gives the same result) and grants every minimum are compared
            lbs, refused = alloc.min_alloc(act, cons, phases, len(ids), c["t"], guard=1e-7)
            if lbs is None or refused:
                return False
            for i_, (lb_, _) in lbs.items():
                rates[i_] = lb_
        for x in order:
            i = x["i"]
            ub = min(max(x["max_pilot"], rates[i]), x["rem_ap"])
            for a in evse_levels(x["evse"]):
                if abs(a - ub) < 1e-7 and ub != x["max_pilot"]:
                    return False
                if a <= ub and a >= vec[i]:
                    trial = list(rates)
                    trial[i] = a
                    ok, concl = alloc.feasible(cons, phases, trial, guard=1e-7)
                    if not concl:
                        return False
            rates[i] = vec[i]
    return True


def check(sc):
    tr, ref = result_of(sc, snapshot=True)
    kind = sc["party"]["kind"]
    out = base_outcome(tr, extra_sig=[kind])
    completion(tr, out, "C10", required=False)
    if ref.get("corrupt"):
        out.add("C10/station_list_corrupted", ref["corrupt"])
        return out
    if out.aborted:
        return out
    r = sub(sc["seed"], "c10")
    rtd = sub(sc["seed"], "training_order")
    if rtd.random() < 0.15:
        # the library's session generator is trained on recorded sessions: the training matrix (and hence the fitted model and
        # everything generated from it) must not depend on the order in which the records are listed
        import datetime as _dt
        from acnportal.acnsim.events import stochastic_events as _se
        t0_ = _dt.datetime(2019, 3, 1, tzinfo=_dt.timezone.utc)
        offs_ = rtd.sample(range(0, 60 * 24 * 40), rtd.randint(3, 12))           # distinct connection minutes
        docs_ = [{"connectionTime": t0_ + _dt.timedelta(minutes=o_), "disconnectTime": t0_ + _dt.timedelta(minutes=o_ + rtd.randint(5, 900)),
                  "kWhDelivered": round(rtd.uniform(0.5, 40), 3), "_id": "d%d" % o_} for o_ in offs_]
        listed_ = list(docs_)
        rtd.shuffle(listed_)
        m_sorted = np.array(_se.GaussianMixtureEvents.extract_training_data(sorted(docs_, key=lambda d_: d_["connectionTime"])), dtype=float)
        m_listed = np.array(_se.GaussianMixtureEvents.extract_training_data(listed_), dtype=float)
        out.probe("training_records_listed_in_another_order")
        if m_sorted.shape != m_listed.shape or not np.array_equal(m_sorted, m_listed):
            out.add("C10/training_data_depends_on_listing_order", "extract_training_data: records listed chronologically give rows %s..., the same records listed "
                    "as %s give rows %s..." % (m_sorted[:3].tolist(), [d_["_id"] for d_ in listed_][:6], m_listed[:3].tolist()))
            return out
    sorted_party = kind in ("greedy", "rr")
    if sorted_party:
        out.probe("sorted_finite_world")
    # binding?  some pilot below station max while the session still has demand
    binding = False
    if sc["network"]["constraints"]:
        for c in tr.calls:
            if c.get("completed") and c.get("schedule"):
                vals = [v[0] for v in c["schedule"].values() if v]
                if len([v for v in vals if v > 0]) >= 1 and sorted_party:
                    binding = True
        if kind == "uncontrolled":
            binding = True

    def pair(name, sc2, tol, shift=0):
        _, res = result_of(sc2)
        out.probe(name)
        d = differ(ref, res, tol, shift)
        if d is not None:
            out.add("C10/" + name, d)

    # 1. identical rebuild; and a JSON clone of the freshly built simulator (equal inputs by construction)
    if sc.get("one_noisy_battery"):
        out.probe("one_noisy_battery_world")
    if sc["network"].get("draft"):
        out.probe("unnamed_limits_with_withdrawn_draft")
    if sc.get("recorded_arrival_before_plugin"):
        out.probe("recorded_arrival_before_plugin_period")
        for s_ in sc["sessions"]:
            ev_ = tr.sim.ev_history.get(s_["session_id"])
            if ev_ is not None and "ev_arrival" in s_ and ev_.arrival != s_["ev_arrival"] and len([x for x in sc["sessions"] if x["session_id"] == s_["session_id"]]) == 1:
                out.add("C10/recorded_arrival_rewritten", "session %s: the input said arrival %d, after the run the record says %r" % (s_["session_id"], s_["ev_arrival"], ev_.arrival))
                break
    pair("rebuild_pair", copy.deepcopy(sc), 0.0)
    if sc["party"].get("uninterrupted"):
        out.probe("uninterrupted_world")
    sc2 = copy.deepcopy(sc)
    sc2["sim"]["json_clone"] = True
    pair("json_clone_pair", sc2, 0.0)
    sc2 = copy.deepcopy(sc)
    sc2["sim"]["deepcopy_before_run"] = True          # the simulator that runs is a copy.deepcopy of the freshly built one
    pair("deepcopy_pair", sc2, 0.0)
    # the same inputs, but the network / event queue / EV objects / algorithm object have already served an earlier run
    sc2 = copy.deepcopy(sc)
    sc2["second_life"] = {k: r.random() < 0.7 for k in ("network", "queue", "evs", "algo")}
    if sub(sc["seed"], "longer_first_life").random() < 0.5:
        sc2["second_life"]["longer_first_life"] = sub(sc["seed"], "longer_first_life").choice([3, 10, 25])      # the earlier run ended later than this one
    rp = sub(sc["seed"], "first_life_perm")
    if rp.random() < 0.5 and len(sc["network"]["stations"]) > 1:
        # the algorithm object served a site with the same stations registered in another order before (round 13)
        sc2["second_life"].update(network=False, algo=True, first_perm=rp.randrange(10 ** 6))
        out.probe("second_life_other_registration_order")
    if not sc.get("one_noisy_battery"):
        # (with a noisy battery the earlier run has consumed part of the environment's random stream: the second life legitimately
        # sees other draws)
        pair("second_life_pair", sc2, 0.0)
    perm_ok = True
    if sorted_party:
        perm_ok = sorted_conclusive(sc, tr)
        if not perm_ok:
            out.probe("guard_band_skips")
            out.inconclusive += 1
    nontriv = False
    # 2. station registration order
    if perm_ok and len(sc["network"]["stations"]) > 1:
        sc2 = copy.deepcopy(sc)
        st = sc2["network"]["stations"]
        r.shuffle(st)
        if [s["id"] for s in st] != [s["id"] for s in sc["network"]["stations"]]:
            nontriv = nontriv or binding
        pair("registration_permuted", sc2, 1e-9)
        sc3 = copy.deepcopy(sc2)
        sc3["sim"]["json_clone"] = True
        pair("json_clone_permuted_pair", sc3, 1e-9)
    # 3. constraint order + term order
    if perm_ok and sc["network"]["constraints"]:
        sc2 = copy.deepcopy(sc)
        cs = sc2["network"]["constraints"]
        r.shuffle(cs)
        for c in cs:
            items = list(c["coeffs"].items())
            r.shuffle(items)
            c["coeffs"] = dict(items)
        if len(cs) > 1:
            nontriv = nontriv or binding
        pair("constraints_permuted", sc2, 1e-9)
    # 4. session list order (order in which events are put into the queue)
    sc2 = copy.deepcopy(sc)
    r.shuffle(sc2["sessions"])
    sc2["sim"]["shuffle_events"] = r.randrange(10 ** 6)
    pair("sessions_permuted", sc2, 0.0)
    # 5. time shift
    k = r.choice([1, 7, 100]) if len(tr.periods) < 40 else r.choice([1, 7])
    sc2 = copy.deepcopy(sc)
    for s in sc2["sessions"]:
        s["arrival"] += k
        s["departure"] += k
        if "est_departure" in s:
            s["est_departure"] += k
        if "ev_arrival" in s:
            s["ev_arrival"] += k
    for e in sc2["extra_events"]:
        e["t"] += k
    sc2["party"]["time_shift"] = k
    pair("shift_pair", sc2, 0.0, shift=k)
    out.nontrivial = nontriv
    return out


# ---------------------------------------------------------------- fresh interpreter under another PYTHONHASHSEED
def _digests(seed, tier, lo, hi):
    out = []
    for idx in range(lo, hi):
        sc = gen(run_seed(seed, ID, idx), tier)
        try:
            _, res = result_of(sc)
        except Exception as x:
            # (an exception inside the library is a digest of its own here - the main runs report it as a violation)
            if driver.classify_exception(x) != "sut":
                raise
            res = {"digest": "exception:" + type(x).__name__}
        out.append(res["digest"])
    return out


def post_run(tier, seed):
    n = 120 if tier == "quick" else 1200
    mine = _digests(seed, tier, 0, n)
    env = dict(os.environ)
    env["PYTHONHASHSEED"] = "4242"
    env["PYTHONPATH"] = os.path.dirname(os.path.dirname(os.path.dirname(os.path.abspath(__file__)))) + os.pathsep + env.get("PYTHONPATH", "")
    p = subprocess.run([sys.executable, "-m", "dsim.props.c10", str(seed), tier, "0", str(n)], env=env, capture_output=True,
                       text=True, timeout=900)
    if p.returncode != 0:
        raise RuntimeError("fresh interpreter failed: " + p.stderr[-500:])
    theirs = json.loads(p.stdout.strip().splitlines()[-1])
    viols = []
    for i, (a, b) in enumerate(zip(mine, theirs)):
        if a != b:
            sc = gen(run_seed(seed, ID, i), tier)
            sc.update(property=ID, verif_seed=seed, run=i, _hashseed_pair=[int(os.environ.get("PYTHONHASHSEED", "0") or 0), 4242])
            viols.append((i, sc, [("C10/hash_seed_dependence", "world %d gives digest %s under PYTHONHASHSEED=0 and %s under 4242 in a fresh interpreter" % (i, a, b))]))
            if len(viols) >= 2:
                break
    return {"viols": viols, "probes": {"hashseed_fresh_interpreter": n}}


if __name__ == "__main__":
    seed, tier, lo, hi = int(sys.argv[1]), sys.argv[2], int(sys.argv[3]), int(sys.argv[4])
    print(json.dumps(_digests(seed, tier, lo, hi)))
