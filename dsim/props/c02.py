"""C02 - energy ledger: recorded rates, EV energy and battery charge agree (conservation over trajectories)."""
from .. import world, driver, sut
from ..worldprop import base_outcome, completion, close, REAL_VS_STUB  # noqa

ID = "C02"
RUNS = {"quick": 20000, "thorough": 220000}
BUDGET = {"quick": 45, "thorough": 780}
RULE = ("worlds with heterogeneous voltages, all battery models, noise tapes, scripted schedules addressing vacant "
        "stations, 20% StochasticNetwork worlds; non-trivial = >=1 period with a non-zero rate strictly below the pilot "
        "(battery-limited) and >=1 non-zero pilot sent to a vacant station; distinct = per-period history signature")
PROBES = ["aggregates_edited_by_an_earlier_reader", "library_generated_sessions", "negative_rate_period", "battery_limited", "vacant_pilot", "resume_json", "stochastic_world", "noisy_battery", "party_charged_its_ev_copies", "second_life", "duplicate_plugin_event_refused"]
FAULT_DIMENSION = "scheduler crash + rerun / JSON round trip; adversarial noise tape; a scheduler that 'charges' the EV copies it was handed (look-ahead)"
ASSUMPTIONS = ["station voltages are taken from the scenario, not from the network object",
               "battery charge is read from the battery object's stored charge attribute (observation only)"]

P_CUSTOM = world.profile(zero_demand=0.05, second_life=0.15, faults={"crash": 0.4, "mutate": 0.4, "invalid_pilot": 0.08}, resume_modes=["rerun", "rerun", "json_str"], noise=0.4, heterovolt=0.8,
                         evse_kinds={"cont": 4, "dead": 2, "finite": 3, "cont_inf": 1, "cont_neg": 1},
                         party={"scripted": 5, "uncontrolled": 2, "greedy": 2, "rr": 1})
P_STOCH = world.profile(net="stochastic", stations=(1, 4), faults={"crash": 0.3}, resume_modes=["rerun"], noise=0.3,
                        party={"scripted": 2, "uncontrolled": 3, "greedy": 2}, evse_kinds={"cont": 3, "finite": 2},
                        heterovolt=0.8)


def gen_generated(rs):
    """Sessions that come out of the library's own stochastic generator (seeded sample override), clipped values and repeated
    rows included, simulated as they are (the library's EV and Battery objects, one station per session) under uncontrolled
    charging; the ledger is judged per session after the run."""
    r = world.sub(rs, "generated")
    n = r.randint(2, 10)
    period = r.choice([5, 5, 15, 60, 7.5])
    dmin = 2.5 * period / 60.0        # (a stay of at least two whole periods: departure > arrival, as C02's simulations assume)
    rows = [[round(r.uniform(0, 20), 3), round(max(dmin, r.choice([r.uniform(0.5, 4), r.uniform(4, 12), 8.0])), 3), round(r.choice([r.uniform(1, 30), 30.0, 9.0]), 3)]
            for _ in range(n)]
    if r.random() < 0.6:
        rows[r.randrange(n)] = list(rows[r.randrange(n)])      # two drivers with the very same sample (clipping, a replayed day)
    return {"seed": rs, "generated": {"rows": rows, "period": period, "voltage": r.choice([208, 240]), "max_power": r.choice([6.656, 7.68, 3.3]),
                                      "fit": r.random() < 0.6, "max_len": r.choice([None, None, 6]), "force_feasible": r.random() < 0.5}}


def check_generated(sc):
    import datetime as dt
    from acnportal.acnsim.events import stochastic_events as se
    from acnportal.acnsim.models.battery import batt_cap_fn
    from ..engine import Outcome
    from ..rng import digest
    g = sc["generated"]
    out = Outcome()
    out.probe("library_generated_sessions")

    class Seeded(se.StochasticEvents):
        def sample(self_, n):
            return sut.np.array(g["rows"][:n], dtype=float)
    bp = {"type": sut.Linear2StageBattery, "capacity_fn": batt_cap_fn} if g["fit"] else None
    try:
        q = Seeded().generate_events([len(g["rows"])], g["period"], g["voltage"], g["max_power"], max_len=g["max_len"],
                                     battery_params=bp, force_feasible=g["force_feasible"])
    except ValueError as x:
        if "No feasible battery size" in str(x):
            out.inconclusive += 1
            out.digest = "unfittable"
            return out
        raise
    evs = [e.ev for _, e in q.queue]
    nw = sut.ChargingNetwork()
    for ev in evs:
        nw.register_evse(sut.EVSE(ev.station_id, max_rate=32), g["voltage"], 0)
    init = {ev.session_id: float(ev._battery._current_charge) for ev in evs}
    sim = sut.Simulator(nw, sut.UncontrolledCharging(), q, dt.datetime(2021, 3, 1), period=g["period"], verbose=False)
    sim.run()
    dtp = g["period"] / 60.0
    ids = list(nw.station_ids)
    log = []
    for ev in evs:
        if ev.departure <= ev.arrival:
            continue
        i = ids.index(ev.station_id)
        rec = float(sim.charging_rates[i, :sim.iteration].sum()) * g["voltage"] / 1000.0 * dtp
        gain = float(ev._battery._current_charge) - init[ev.session_id]
        log.append((ev.session_id, repr(rec)))
        if not close(float(ev.energy_delivered), rec, n=sim.iteration + 1, rel=1e-8):
            out.add("C02/session_energy_total", "generated session %s reports %r kWh, its station's recorded rates integrate to %r" % (ev.session_id, ev.energy_delivered, rec))
            break
        if not close(gain, rec, n=sim.iteration + 1, rel=1e-8):
            out.add("C02/battery_charge_step", "generated session %s: battery gained %r kWh, recorded rates integrate to %r (two sessions sharing one "
                    "battery object?)" % (ev.session_id, gain, rec))
            break
    out.periods = int(sim.iteration)
    out.digest = digest(log)
    out.sig = digest((len(evs), g["fit"], g["period"]))
    return out


def gen(rs, tier):
    if rs % 23 == 0:
        return gen_generated(rs)
    sc = world.gen_world(rs, P_STOCH if rs % 5 == 0 else P_CUSTOM)
    r = world.sub(rs, "dupplug")
    if sc["network"]["kind"] == "custom" and r.random() < 0.06:
        # invalid input (two data pulls merged): a second plug-in event for a session that is already attached. The library
        # refuses it (StationOccupiedError ends the run); if a run does complete, its ledger must still balance
        cands = [s for s in sc["sessions"] if s["departure"] - s["arrival"] >= 2]
        if cands:
            s0 = r.choice(cands)
            sc["dup_plugin"] = {"session_id": s0["session_id"], "station": s0["station"], "t": r.randint(s0["arrival"] + 1, s0["departure"] - 1)}
            sc["faults"] = []
            sc.pop("second_life", None)
    return sc


def check(sc):
    if "generated" in sc:
        return check_generated(sc)
    tr = driver.run_world(sc, observe=0)
    out = base_outcome(tr)
    ok = completion(tr, out, "C02", required=False)
    V = {s["id"]: s["voltage"] for s in sc["network"]["stations"]}
    period = sc["sim"]["period"]
    dt = period / 60.0
    ids = [s["id"] for s in sc["network"]["stations"]]
    energy = {}     # session -> accumulated from recorded rates
    last_e = {}     # session -> last reported energy_delivered
    last_c = {}     # session -> last battery charge
    init_c = {s["session_id"]: s["battery"]["init"] for s in sc["sessions"]}
    peak = 0.0
    tot_power_integral = 0.0
    n_acc = 0
    batt_lim = vac = moved = 0
    where = {}
    for p in tr.periods:
        t = p["t"]
        st = p.get("pre", p)["st"]   # state right after charging (before stochastic swaps)
        if list(st.keys()) != ids:
            out.add("C02/station_order", "%s vs %s" % (list(st.keys()), ids))
            break
        agg = 0.0
        for i, s in enumerate(ids):
            rate = p["rates"][i]
            pilot = p["pilots"][i]
            sid, cur_pilot, e, c = st[s]
            agg += rate
            tot_power_integral += rate * V[s] / 1000.0 * dt
            if sid is None:
                if rate != 0:
                    out.add("C02/rate_on_vacant_station", "t=%d station %s rate %r" % (t, s, rate))
                if pilot != 0:
                    vac += 1
                continue
            if sid in where and where[sid] != s:
                moved += 1
            where[sid] = s
            de = rate * V[s] / 1000.0 * dt
            energy[sid] = energy.get(sid, 0.0) + de
            n_acc += 1
            pe = last_e.get(sid, 0.0)
            pc = last_c.get(sid, init_c.get(sid))
            if not close(e - pe, de, n=4):
                out.add("C02/ev_energy_step", "t=%d session %s energy_delivered +%r but rate*V*dt=%r" % (t, sid, e - pe, de))
            if pc is not None and not close(c - pc, de, n=4, rel=1e-8):
                out.add("C02/battery_charge_step", "t=%d session %s battery +%r but rate*V*dt=%r" % (t, sid, c - pc, de))
            last_e[sid] = e
            last_c[sid] = c
            if 0 < rate < pilot - 1e-9:
                batt_lim += 1
            if rate < 0:
                out.probe("negative_rate_period")
        # sessions that moved into a station during post_charging_update keep their energy
        if "pre" in p:
            for s in ids:
                sid, _, e, c = p["st"][s]
                if sid is not None and sid in last_e and not close(e, last_e[sid]):
                    out.add("C02/energy_changed_in_post_update", "t=%d %s" % (t, sid))
        peak = max(peak, agg)
        if not close(p["peak"], peak, n=len(ids)):
            out.add("C02/peak_running", "t=%d reported peak %r, max aggregate so far %r" % (t, p["peak"], peak))
    out.probe("battery_limited", batt_lim)
    out.probe("vacant_pilot", vac)
    out.probe("resume_json", sum(1 for r in tr.resumes if r["mode"] != "rerun"))
    out.probe("stochastic_world", 1 if sc["network"]["kind"] == "stochastic" else 0)
    out.probe("noisy_battery", 1 if tr.noise_draws else 0)
    out.probe("second_life", tr.fault_counts.get("second_life", 0))
    if sc.get("dup_plugin") and tr.exc is not None and type(tr.exc).__name__ == "StationOccupiedError":
        out.probe("duplicate_plugin_event_refused")
    out.probe("party_charged_its_ev_copies", tr.fault_counts.get("mutate", 0))
    out.nontrivial = batt_lim > 0 and vac > 0
    if not ok or out.viol:
        return out
    sim = tr.sim
    # the recorded matrix is what was observed period by period (no later overwrite)
    for p in tr.periods:
        col = [float(x) for x in sim.charging_rates[:, p["t"]]]
        if col != p["rates"]:
            out.add("C02/rates_rewritten", "column %d now %s, was %s at the end of its period" % (p["t"], col, p["rates"]))
            break
    from acnportal.acnsim import analysis
    for sid, ev in sim.ev_history.items():
        if not close(ev.energy_delivered, energy.get(sid, 0.0), n=n_acc + 1):
            out.add("C02/session_energy_total", "%s reports %r, sum of rate*V*dt over connected periods %r"
                    % (sid, ev.energy_delivered, energy.get(sid, 0.0)))
    if not close(float(sim.peak), peak, n=len(ids)):
        out.add("C02/peak", "peak %r vs max aggregate current %r" % (sim.peak, peak))
    ted = float(analysis.total_energy_delivered(sim))
    if not close(ted, tot_power_integral, n=n_acc + 1, rel=1e-8):
        out.add("C02/total_energy_vs_power_integral", "total_energy_delivered %r vs integral of aggregate power %r" % (ted, tot_power_integral))
    # (an earlier reader of the same finished simulation converted the aggregates it was given to kA / W in place: its arrays were its own)
    for fn_ in (analysis.aggregate_current, analysis.aggregate_power):
        prev_ = fn_(sim)
        try:
            prev_ *= 1000.0
        except (ValueError, TypeError):
            pass
    out.probe("aggregates_edited_by_an_earlier_reader")
    ac = analysis.aggregate_current(sim)
    if sim.iteration and not close(float(max(ac[: sim.iteration])), peak, n=len(ids)):
        out.add("C02/peak", "peak per scenario ledger %r vs max of aggregate_current(sim) %r" % (peak, float(max(ac[: sim.iteration]))))
    ap = analysis.aggregate_power(sim)
    integ = float(ap[: sim.iteration].sum()) * dt
    if not close(ted, integ, n=n_acc + 1, rel=1e-8):
        out.add("C02/total_energy_vs_aggregate_power", "total_energy_delivered %r vs sum(aggregate_power)*dt %r" % (ted, integ))
    if float(sim.charging_rates[:, sim.iteration:].sum()) != 0.0:
        out.add("C02/rates_beyond_end", "non-zero rates after the last simulated period")
    return out
