"""C17 - tariff lookup is total, unambiguous and aligned with simulation time (simulated clock swept over the calendar)."""
import datetime as dt
from .. import sut, world, driver
from ..engine import Outcome
from ..rng import sub, digest
from ..models import tariff as ref
from ..worldprop import base_outcome, completion
from ..shrink import world_candidates

np = sut.np
ID = "C17"
RUNS = {"quick": 6500, "thorough": 150000}
BUDGET = {"quick": 50, "thorough": 800}
CHUNK = 150
DET_EVERY = 100
TARIFFS = ["pge_a10_tou_aug_2019", "sce_tou_ev_4_march_2019", "sce_tou_ev_4_march_2019_tou_periods_shifted",
           "sce_tou_ev_8_june_2019", "sce_tou_ev_8_oct_2018"]
# one representative year per calendar type: (leap?, weekday of Jan 1)
YEARS = [2001, 2002, 2003, 2009, 2010, 2005, 2006, 2024, 2008, 2020, 2004, 2016, 2028, 2012]
RULE = ("2 of 3 runs: clock sweep - one bundled tariff x one of the 14 calendar-type years, a price vector of up to 3000 "
        "periods (period 1/5/15/60 min) from a start placed at random, at a breakpoint, at a season edge or at a weekday-class "
        "midnight, plus +-1 minute probes at every breakpoint of that day; 1 of 3: whole simulations with a tariff signal, "
        "the party querying get_prices(n, start) / get_demand_charge at its calls, energy_cost and demand_charge recomputed "
        "after the run; non-trivial = a lookup within one period of a breakpoint, season change or weekday/weekend midnight; "
        "distinct = (tariff, calendar type, period, start class, day-of-year bucket)")
PROBES = ["lookups", "near_breakpoint", "season_edge_crossed", "weekday_class_midnight", "year_wrap_crossed", "leap_day",
          "world_runs", "get_prices_start0_later", "get_prices_explicit_start", "demand_charge_query", "energy_cost_checked",
          "winter_pge", "aware_two_zone_lookup", "explicit_tariff_cost_checked", "price_vector_scribbled", "vector_longer_than_a_year", "host_tz_non_utc", "breakpoint_minute_sweep", "concurrent_callers", "thread_switches",
          "coarse_vector_daily_or_longer", "coarse_vector_monthly_or_longer", "direct_vector_scribbled_and_asked_again", "pandas_timestamp_lookup", "vector_ends_exactly_at_a_schedule_change_midnight"]
FAULT_DIMENSION = "environment: host time zone (with DST nights), a working directory holding same-named tariff files with other rates; the simulated clock is swept across the calendar"
REAL_VS_STUB = "real: TimeOfUseTariff + bundled JSON files, Interface.get_prices/get_demand_charge, analysis.energy_cost/demand_charge, Simulator; reference reads the JSON files itself"
ASSUMPTIONS = ["prices compared exactly (they are copied from the file, never computed)", "costs within 1e-9 relative"]
_CACHE = {}


def tariff_obj(name):
    from acnportal.signals.tariffs.tou_tariff import TimeOfUseTariff
    if name not in _CACHE:
        from ..build import hostile_cwd
        with hostile_cwd(name):
            _CACHE[name] = (TimeOfUseTariff(name), ref.load(sut.REPO, name))
    return _CACHE[name]


def candidates(sc):
    if "network" in sc:
        return world_candidates(sc)
    import copy
    outl = []
    if sc["n"] > 4:
        c = copy.deepcopy(sc)
        c["n"] = sc["n"] // 2
        outl.append(c)
    return outl


P_WORLD = world.profile(party={"scripted": 2, "uncontrolled": 2, "greedy": 1}, stations=(1, 4), horizon=(4, 40), noise=0.0,
                        periods=[1, 5, 15, 60, 7.5])


def gen(rs, tier):
    r = sub(rs, "c17")
    name = r.choice(TARIFFS)
    if rs % 3 == 0:
        sc = world.gen_world(rs, P_WORLD)
        sc["sim"]["signals"] = "tariff:" + name
        y = r.choice(YEARS)
        mode = r.random()
        if mode < 0.3:
            sc["sim"]["start"] = [y, r.choice([4, 5, 10, 11, 12, 1]), r.choice([30, 31, 1, 28]) if False else r.randint(1, 28), r.randint(0, 23), r.choice([0, 30, 59])]
        elif mode < 0.5:
            sc["sim"]["start"] = [y, 12, 31, r.randint(12, 23), r.choice([0, 30])]
        else:
            sc["sim"]["start"] = [y, r.randint(1, 12), r.randint(1, 28), r.randint(0, 23), r.choice([0, 15, 30, 45])]
        sc["tariff"] = name
        rh = sub(rs, "host_tz")
        sc["sim"]["host_tz"] = rh.choice(["UTC", "UTC", "America/Los_Angeles", "Europe/Berlin", "Australia/Sydney"])
        if sc["sim"]["host_tz"] != "UTC" and rh.random() < 0.5:
            # the run spans a night in which the machine's zone changes its UTC offset
            mo_, d_ = {"America/Los_Angeles": [(3, 10), (11, 3)], "Europe/Berlin": [(3, 31), (10, 27)],
                       "Australia/Sydney": [(4, 7), (10, 6)]}[sc["sim"]["host_tz"]][rh.randrange(2)]
            sc["sim"]["start"] = [2019, mo_, d_, rh.choice([0, 1, 1]), rh.choice([0, 30, 45])]
            sc["sim"].pop("start_tz", None)
        return sc
    year = r.choice(YEARS)
    period = r.choice([1, 5, 15, 15, 60, 60])
    n = r.randint(200, 3000)
    if sub(rs, "long_vector").random() < 0.04:
        # one price vector covering more than a year (the same month/day occurs twice, with different weekday classes)
        period = r.choice([60, 60, 120, 180])
        n = int((366 + r.randint(5, 150)) * 1440 / period)
    rcv = sub(rs, "coarse_vector")
    if rcv.random() < 0.1:
        # coarse price vectors: steps of hours, days, weeks, (28 .. 31)-day months, quarters and years ("all period lengths"); two
        # consecutive entries then differ in date, weekday class and often season at once
        period = rcv.choice([90, 240, 720, 1440, 1440, 2880, 10080, 40320, 41760, 43200, 43200, 44640, 44640, 131040, 525600, 527040])
        n = rcv.randint(3, 60 if period < 100000 else 12)
    return {"seed": rs, "tariff": name, "year": year, "period": period, "n": n, "start_mode": r.choice(["random", "breakpoint", "season_edge", "midnight", "new_year", "leap_day", "ends_at_midnight"]),
            "pick": r.randrange(10 ** 6), "second": r.choice([0, 0, 0, 30, 59])}


def expect(out, doc, d, tag):
    m = ref.matching(doc, d)
    if len(m) != 1:
        return None, "reference: %d schedules apply at %s (%s)" % (len(m), d, [s["id"] for s in m])
    p = ref.price_of(m[0], d)
    return (p, m[0]["demand_charge"]), None


def check(sc):
    if "network" in sc:
        return check_world(sc)
    out = Outcome()
    T, doc = tariff_obj(sc["tariff"])
    r = sub(sc["seed"], "start")
    y = sc["year"]
    mode = sc["start_mode"]
    bps = ref.breakpoints(doc)
    edges = ref.season_edges(doc)
    day = dt.datetime(y, 1, 1) + dt.timedelta(days=r.randrange(0, 366 if (y % 4 == 0) else 365))
    if mode == "season_edge" and edges:
        mth, dd = edges[sc["pick"] % len(edges)]
        day = dt.datetime(y, mth, dd) - dt.timedelta(days=r.choice([0, 1]))
    elif mode == "new_year":
        day = dt.datetime(y, 12, 30)
    elif mode == "leap_day":
        day = dt.datetime(y, 2, 27)
    if sc["pick"] % 40 == 7 and bps:
        # minute sweep: for one breakpoint of the day, the price vector is started 1 .. 59 whole minutes before it with 1-minute
        # periods; the entry whose period starts exactly on the breakpoint must already carry the new price
        b = bps[(sc["pick"] // 40) % len(bps)]
        at = day + dt.timedelta(seconds=int(b * 3600))
        e_at, err_ = expect(out, doc, at, sc["tariff"])
        out.probe("breakpoint_minute_sweep")
        if e_at is not None:
            for k_ in range(1, 60):
                try:
                    vec_ = T.get_tariffs(at - dt.timedelta(minutes=k_), k_ + 1, 1)
                except Exception as x:
                    from ..driver import classify_exception
                    if classify_exception(x) == "harness":
                        raise
                    out.add("C17/lookup_raises", "%s: get_tariffs(%s, %d, 1): %s: %s" % (sc["tariff"], at - dt.timedelta(minutes=k_), k_ + 1, type(x).__name__, str(x)[:100]))
                    break
                if abs(float(vec_[k_]) - e_at[0]) > 1e-12:
                    out.add("C17/price", "%s: get_tariffs(%s, %d, 1)[%d] is %r; that period starts at %s, where the file says %r"
                            % (sc["tariff"], at - dt.timedelta(minutes=k_), k_ + 1, k_, float(vec_[k_]), at, e_at[0]))
                    break
    start = day + dt.timedelta(minutes=r.randrange(0, 1440), seconds=sc["second"])
    if mode == "breakpoint" and bps:
        b = bps[sc["pick"] % len(bps)]
        start = day + dt.timedelta(seconds=int(b * 3600)) - dt.timedelta(minutes=sc["period"] * r.randint(0, 3))
        if sc["pick"] % 3 == 0:
            # any whole number of minutes before the breakpoint: some period of the vector starts exactly on it
            start = day + dt.timedelta(seconds=int(b * 3600)) - dt.timedelta(minutes=sc["period"] * (sc["pick"] // 3 % 61))
    elif mode == "midnight":
        day = day - dt.timedelta(days=(day.weekday() - 4) % 7)   # a Friday
        start = day + dt.timedelta(hours=23, minutes=r.choice([0, 30, 45, 59]))
    n, period = sc["n"], sc["period"]
    if mode == "ends_at_midnight":
        # a vector whose LAST entry starts exactly at 00:00 of a day on which another schedule takes over (first day of a season,
        # a Saturday, a Monday): k periods back from that midnight, k + 1 entries
        pk_ = sc["pick"]
        if edges and pk_ % 3 == 0:
            mth, dd = edges[(pk_ // 3) % len(edges)]
            mid_ = dt.datetime(y, mth, dd)
        else:
            d0_ = dt.datetime(y, 1, 1) + dt.timedelta(days=pk_ % 360)
            mid_ = d0_ + dt.timedelta(days=((5 if pk_ % 2 else 0) - d0_.weekday()) % 7)       # next Saturday / Monday 00:00
        k_ = 1 + (pk_ // 7) % 47
        if period < 1440:
            start, n = mid_ - k_ * dt.timedelta(minutes=period), k_ + 1
            out.probe("vector_ends_exactly_at_a_schedule_change_midnight")
    try:
        got = T.get_tariffs(start, n, period)
    except Exception as x:
        from ..driver import classify_exception
        if classify_exception(x) == "harness":
            raise
        # locate the first failing instant for the report
        where = None
        for k in range(n):
            d = start + k * dt.timedelta(minutes=period)
            try:
                T.get_tariff(d)
            except Exception:
                where = d
                break
        out.add("C17/lookup_raises", "%s: %s: %s (first failing instant %s)" % (sc["tariff"], type(x).__name__, str(x)[:120], where))
        got = None
    near = 0
    if got is not None:
        if len(got) != n:
            out.add("C17/vector_length", "%d prices for n=%d" % (len(got), n))
        prev = None
        for k in range(min(n, len(got))):
            d = start + k * dt.timedelta(minutes=period)
            e, err = expect(out, doc, d, sc["tariff"])
            if err:
                out.add("C17/ambiguous_or_missing_schedule", "%s %s" % (sc["tariff"], err))
                break
            if got[k] != e[0]:
                out.add("C17/price", "%s at %s (start %s + %d x %g min): returned %r, file says %r" % (sc["tariff"], d, start, k, period, got[k], e[0]))
                break
            if prev is not None and prev != e[0]:
                near += 1
            prev = e[0]
            if (d.month, d.day) == (2, 29):
                out.probe("leap_day")
        out.probe("lookups", n)
        if period >= 1440:
            out.probe("coarse_vector_daily_or_longer")
        if period >= 40320:
            out.probe("coarse_vector_monthly_or_longer")
        rs_ = sub(sc["seed"], "scribble")
        if not out.viol and rs_.random() < (0.25 if n <= 1500 else 0.08):
            # the caller works on the list it was given (converts to cents, blanks entries, sorts it) and asks again with equal
            # arguments: the second answer must not have noticed
            saved = list(got)
            try:
                how_ = rs_.choice(["scale", "neg", "clear", "sort"])
                if how_ == "scale":
                    for i_ in range(len(got)):
                        got[i_] = got[i_] * 100
                elif how_ == "neg":
                    got[:] = [-1.0 - x_ for x_ in got]
                elif how_ == "clear":
                    del got[1:]
                else:
                    got.sort(reverse=True)
                    got.append(-7.0)
            except (TypeError, AttributeError, ValueError):
                pass        # (an immutable answer cannot be scribbled on: fine)
            try:
                again = list(T.get_tariffs(start, n, period))
            except Exception as x:
                from ..driver import classify_exception
                if classify_exception(x) == "harness":
                    raise
                again = None
                out.add("C17/lookup_raises", "%s: second get_tariffs(%s, %d, %g) after the caller edited the first answer: %s: %s" % (sc["tariff"], start, n, period, type(x).__name__, str(x)[:100]))
            out.probe("direct_vector_scribbled_and_asked_again")
            if again is not None and again != saved:
                k_ = next((i_ for i_ in range(min(len(again), len(saved))) if again[i_] != saved[i_]), min(len(again), len(saved)))
                out.add("C17/price_after_caller_edit", "%s: get_tariffs(%s, %d, %g) asked twice; the caller edited the first answer in place (%s) and the second answer differs "
                        "from the first at index %d: %r, was %r (lengths %d / %d)" % (sc["tariff"], start, n, period, how_, k_, again[k_] if k_ < len(again) else None,
                                                                                  saved[k_] if k_ < len(saved) else None, len(again), len(saved)))
            got = saved
        end = start + n * dt.timedelta(minutes=period)
        if end.year != start.year:
            out.probe("year_wrap_crossed")
        for (mth, dd) in edges:
            try:
                e0 = dt.datetime(start.year, mth, dd)
            except ValueError:
                continue
            if start <= e0 <= end:
                out.probe("season_edge_crossed")
        if mode == "midnight":
            out.probe("weekday_class_midnight")
    # +-1 minute (and exact) probes at every breakpoint of the start day, and the demand charge
    if not out.viol:
        d0 = dt.datetime(start.year, start.month, start.day)
        for b in bps:
            for off in (-60, -1, 0, 1, 60):
                d = d0 + dt.timedelta(seconds=int(b * 3600) + off)
                e, err = expect(out, doc, d, sc["tariff"])
                if err:
                    out.add("C17/ambiguous_or_missing_schedule", "%s %s" % (sc["tariff"], err))
                    break
                try:
                    g = T.get_tariff(d)
                    dc = T.get_demand_charge(d)
                except Exception as x:
                    out.add("C17/lookup_raises", "%s at %s: %s: %s" % (sc["tariff"], d, type(x).__name__, str(x)[:100]))
                    break
                near += 1
                if g != e[0] or dc != e[1]:
                    out.add("C17/price", "%s at %s (breakpoint %s h %+d s): returned %r / demand %r, file says %r / %r" % (sc["tariff"], d, float(b), off, g, dc, e[0], e[1]))
                    break
            if out.viol:
                break
    # aware datetimes: the same instants presented in two time zones to the SAME tariff object; each must be priced by its
    # own wall-clock date and time of day
    if not out.viol:
        import zoneinfo
        za, zb = r.sample(["UTC", "America/Los_Angeles", "Asia/Kolkata", "Europe/London", "Pacific/Chatham"], 2)
        pts = [start.replace(tzinfo=zoneinfo.ZoneInfo(za)) + dt.timedelta(minutes=period * r.randrange(0, max(1, n))) for _ in range(6)]
        seq = [(p_, p_.astimezone(zoneinfo.ZoneInfo(zb))) for p_ in pts]
        for pa, pb in seq:
            for d in ((pa, pb) if r.random() < 0.5 else (pb, pa)):
                e, err = expect(out, doc, d, sc["tariff"])
                if err:
                    continue
                try:
                    g = T.get_tariff(d)
                except Exception as x:
                    out.add("C17/lookup_raises", "%s at aware %s: %s: %s" % (sc["tariff"], d.isoformat(), type(x).__name__, str(x)[:100]))
                    break
                out.probe("aware_two_zone_lookup")
                if g != e[0]:
                    out.add("C17/price_aware_datetime", "%s at %s (same instant also asked as %s): returned %r, file says %r for that date / time of day"
                            % (sc["tariff"], d.isoformat(), (pb if d is pa else pa).isoformat(), g, e[0]))
                    break
            if out.viol:
                break
    # instants handed over as pandas Timestamps (a datetime subclass; what DataFrame indices and date_range yield), aware, on and around
    # the days on which their zone changes its offset: priced by the wall-clock date and time of day the Timestamp shows
    rpt = sub(sc["seed"], "pd_timestamp")
    if not out.viol and rpt.random() < 0.3:
        import pandas as pd
        zn = rpt.choice(["America/Los_Angeles", "Europe/London", "Australia/Sydney", "UTC"])
        days_ = {"America/Los_Angeles": [(3, 10), (11, 3)], "Europe/London": [(3, 31), (10, 27)], "Australia/Sydney": [(4, 7), (10, 6)], "UTC": [(6, 1)]}[zn]
        mo_, dd_ = rpt.choice(days_)
        t0_ = pd.Timestamp(year=2019, month=mo_, day=dd_, hour=0, minute=rpt.choice([0, 15, 30]), tz=zn)
        step_ = rpt.choice([15, 30, 60])
        pts_ = [t0_ + k_ * pd.Timedelta(minutes=step_) for k_ in range(0, int(26 * 60 / step_), rpt.choice([1, 2, 3]))]
        for p_ in pts_:
            e, err = expect(out, doc, p_.to_pydatetime().replace(tzinfo=None), sc["tariff"])
            if err:
                continue
            try:
                g = T.get_tariff(p_)
            except Exception as x:
                from ..driver import classify_exception
                if classify_exception(x) == "harness":
                    raise
                out.add("C17/lookup_raises", "%s at pandas Timestamp %s: %s: %s" % (sc["tariff"], p_.isoformat(), type(x).__name__, str(x)[:100]))
                break
            out.probe("pandas_timestamp_lookup")
            if g != e[0]:
                out.add("C17/price_aware_datetime", "%s at pandas.Timestamp %s: returned %r, file says %r for that date / time of day" % (sc["tariff"], p_.isoformat(), g, e[0]))
                break
        if not out.viol:
            n_ = min(len(pts_), 20)
            try:
                vec_ = T.get_tariffs(t0_, n_, step_)
            except Exception as x:
                from ..driver import classify_exception
                if classify_exception(x) == "harness":
                    raise
                vec_ = None
                out.add("C17/lookup_raises", "%s: get_tariffs(pandas Timestamp %s, %d, %d): %s: %s" % (sc["tariff"], t0_.isoformat(), n_, step_, type(x).__name__, str(x)[:100]))
            for k_ in range(n_ if vec_ is not None else 0):
                dk_ = t0_ + k_ * dt.timedelta(minutes=step_)          # (the instants the documented start + k x period denotes for this type)
                e, err = expect(out, doc, dk_.to_pydatetime().replace(tzinfo=None), sc["tariff"])
                if err:
                    continue
                if vec_[k_] != e[0]:
                    out.add("C17/price", "%s: get_tariffs(pandas.Timestamp %s, %d, %d)[%d] is %r; start + %d x period is %s, where the file says %r"
                            % (sc["tariff"], t0_.isoformat(), n_, step_, k_, vec_[k_], k_, dk_.isoformat(), e[0]))
                    break
    # caller threads: one tariff object shared by several request handlers; the seed decides the interleaving of their steps inside the
    # library (dsim/threads.py); each must get the prices it gets when it asks alone
    rt = sub(sc["seed"], "threads")
    if not out.viol and rt.random() < 0.12:
        from ..threads import Interleaver
        jobs, alone = [], []
        for _ in range(rt.choice([2, 2, 3])):
            d_ = start + dt.timedelta(minutes=period * rt.randrange(0, max(1, n))) + dt.timedelta(days=rt.choice([0, 0, 45, 180]))
            if rt.random() < 0.5:
                k_, p_ = rt.randint(2, 12), rt.choice([15, 60, 240, 1440])
                jobs.append((lambda d_=d_, k_=k_, p_=p_: list(T.get_tariffs(d_, k_, p_))))
            else:
                jobs.append((lambda d_=d_: (T.get_tariff(d_), T.get_demand_charge(d_))))
        try:
            alone = [j() for j in jobs]
            res_, info_ = Interleaver(sub(sc["seed"], "interleave"), sut.in_repo).run(jobs)
        except Exception as x:
            from ..driver import classify_exception
            if classify_exception(x) == "harness":
                raise
            res_, info_ = [], {"switches": 0, "order": []}
            out.add("C17/lookup_raises", "%s: %s: %s" % (sc["tariff"], type(x).__name__, str(x)[:120]))
        out.probe("concurrent_callers")
        out.probe("thread_switches", info_["switches"])
        for (kind_, val_), alone_ in zip(res_, alone):
            if kind_ == "exc":
                from ..driver import classify_exception
                if classify_exception(val_) == "harness":
                    raise val_
                out.add("C17/concurrent_callers", "%s: threads sharing one tariff object: %s: %s (interleaving %s)"
                        % (sc["tariff"], type(val_).__name__, str(val_)[:100], info_["order"][:30]))
                break
            if val_ != alone_:
                out.add("C17/concurrent_callers", "%s: threads sharing one tariff object (interleaving %s): one caller got %r, alone it gets %r"
                        % (sc["tariff"], info_["order"][:30], val_, alone_))
                break
    out.probe("near_breakpoint", near)
    if n * period > 366 * 1440:
        out.probe("vector_longer_than_a_year")
    if sc["tariff"].startswith("pge") and (start.month >= 11 or start.month <= 4):
        out.probe("winter_pge")
    out.nontrivial = near > 0
    caltype = (sc["year"] % 4 == 0, dt.datetime(sc["year"], 1, 1).weekday())
    out.sig = digest((sc["tariff"], caltype, period, mode, start.timetuple().tm_yday // 8))
    out.digest = digest((str(start), n, period, None if got is None else got[:50], out.tags()))
    out.calls = n
    out.minutes = n * period
    return out


def check_world(sc):
    from acnportal.acnsim import analysis
    name = sc["tariff"]
    _, doc = tariff_obj(name)
    from ..build import build_start
    start = build_start(sc["sim"])
    period = sc["sim"]["period"]
    pre = Outcome()
    state = {"n": 0}

    def setup(ctx, party):
        def post(party_, iface, rec, sched):
            if state["n"] >= 6 or pre.viol:
                return
            state["n"] += 1
            r = sub(sc["seed"], "prices", rec["t"])
            t = rec["t"]
            n = r.randint(1, 30)
            i = r.choice([None, 0, t, r.randint(0, t + 5)])
            try:
                arr = iface.get_prices(n, start=i) if i is not None else iface.get_prices(n)
                got = [float(x) for x in arr]
                try:
                    # the party works on what it was handed (e.g. converts $/kWh to $/period in place): later queries must
                    # still return the tariff's prices
                    arr *= 0.0
                    arr -= 1.0
                    pre.probe("price_vector_scribbled")
                except Exception:
                    pass
                dc = iface.get_demand_charge(start=i) if i is not None else iface.get_demand_charge()
            except Exception as x:
                from ..driver import classify_exception
                if classify_exception(x) == "harness":
                    raise
                pre.add("C17/lookup_raises", "%s: get_prices(%d, start=%r) at t=%d: %s: %s" % (name, n, i, t, type(x).__name__, str(x)[:100]))
                return
            base = t if i is None else i
            if i == 0 and t > 0:
                pre.probe("get_prices_start0_later")
            if i is not None:
                pre.probe("get_prices_explicit_start")
            pre.probe("demand_charge_query")
            for k in range(n):
                d = start + dt.timedelta(minutes=period) * (base + k)
                e, err = expect(pre, doc, d, name)
                if err:
                    pre.add("C17/ambiguous_or_missing_schedule", "%s %s" % (name, err))
                    return
                if float(got[k]) != e[0]:
                    pre.add("C17/interface_prices", "%s: get_prices(%d, start=%r) at t=%d: element %d is %r, price at %s is %r" % (name, n, i, t, k, got[k], d, e[0]))
                    return
            e, err = expect(pre, doc, start + dt.timedelta(minutes=period) * base, name)
            if e and dc != e[1]:
                pre.add("C17/interface_demand_charge", "%s: get_demand_charge(start=%r) at t=%d = %r, file says %r" % (name, i, t, dc, e[1]))
        ctx.post_hooks.append(post)

    tr = driver.run_world(sc, observe=0, setup=setup)
    host = sc["sim"].get("host_tz", "UTC")
    if host != "UTC":
        pre.probe("host_tz_non_utc")
    out = base_outcome(tr, extra_sig=[name, sc["sim"]["start"][:3]])
    out.viol = pre.viol
    out.probes = dict(out.probes, **pre.probes)
    out.probe("world_runs")
    ok = completion(tr, out, "C17", required=False)
    if not ok or out.viol:
        return out
    sim = tr.sim
    V = [s["voltage"] for s in sc["network"]["stations"]]
    W = sim.charging_rates.shape[1]
    power = [sum(V[i] * float(sim.charging_rates[i, k]) for i in range(len(V))) / 1000.0 for k in range(W)]
    try:
        ec = float(analysis.energy_cost(sim))
        dcv = float(analysis.demand_charge(sim))
    except Exception as x:
        from ..driver import classify_exception
        if classify_exception(x) == "harness":
            raise
        out.add("C17/lookup_raises", "%s: energy_cost/demand_charge: %s: %s" % (name, type(x).__name__, str(x)[:120]))
        return out
    want = 0.0
    for k in range(W):
        e, err = expect(out, doc, start + dt.timedelta(minutes=period) * k, name)
        if err:
            out.add("C17/ambiguous_or_missing_schedule", "%s %s" % (name, err))
            return out
        want += e[0] * power[k] * period / 60.0
    out.probe("energy_cost_checked")
    if abs(ec - want) > 1e-9 * max(1.0, abs(want)):
        out.add("C17/energy_cost", "%s: energy_cost %r, sum(price x power x dt) %r" % (name, ec, want))
    e0, _ = expect(out, doc, start, name)
    if e0 and abs(dcv - e0[1] * max(power)) > 1e-9 * max(1.0, abs(dcv)):
        out.add("C17/demand_charge", "%s: demand_charge %r, rate %r x peak power %r" % (name, dcv, e0[1], max(power)))
    # an explicitly passed tariff takes the place of the simulator's own
    other = [t for t in TARIFFS if t != name][sc["seed"] % (len(TARIFFS) - 1)]
    T2, doc2 = tariff_obj(other)
    try:
        ec2 = float(analysis.energy_cost(sim, T2))
        dc2 = float(analysis.demand_charge(sim, T2))
    except Exception as x:
        from ..driver import classify_exception
        if classify_exception(x) == "harness":
            raise
        out.add("C17/lookup_raises", "%s (explicit tariff): energy_cost/demand_charge: %s: %s" % (other, type(x).__name__, str(x)[:120]))
        return out
    want2 = 0.0
    for k in range(W):
        e, err = expect(out, doc2, start + dt.timedelta(minutes=period) * k, other)
        if err:
            out.add("C17/ambiguous_or_missing_schedule", "%s %s" % (other, err))
            return out
        want2 += e[0] * power[k] * period / 60.0
    out.probe("explicit_tariff_cost_checked")
    if abs(ec2 - want2) > 1e-9 * max(1.0, abs(want2)):
        out.add("C17/energy_cost_explicit_tariff", "energy_cost(sim, %s) = %r on a simulator carrying %s; sum(price x power x dt) with %s is %r"
                % (other, ec2, name, other, want2))
    e2, _ = expect(out, doc2, start, other)
    if e2 and abs(dc2 - e2[1] * max(power)) > 1e-9 * max(1.0, abs(dc2)):
        out.add("C17/demand_charge_explicit_tariff", "demand_charge(sim, %s) = %r, rate %r x peak power %r" % (other, dc2, e2[1], max(power)))
    out.nontrivial = any(p > 0 for p in power)
    return out
