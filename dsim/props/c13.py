"""C13 - EVSEs accept exactly their allowable pilots and advertise truthful limits; rejected pilots change nothing.

Two layers: an EVSE bench (set_pilot / plugin / unplug sequences with pilots at every boundary +- d) and whole simulated
runs in which the misbehaving scheduler party sends an out-of-set pilot (fault atomicity on the rejected station)."""
import math
from .. import sut, world, driver
from ..engine import Outcome
from ..rng import sub, digest
from ..shrink import ops_candidates, world_candidates
from ..build import build_evse, build_battery
from ..world import evse_levels, _gen_evse
from ..worldprop import base_outcome, completion

np = sut.np
ID = "C13"
RUNS = {"quick": 60000, "thorough": 700000}
BUDGET = {"quick": 45, "thorough": 780}
CHUNK = 800
DET_EVERY = 400
RULE = ("3 of 4 runs: EVSE bench - one generated EVSE (continuous incl. min>0 / max=inf, deadband, finite lists unsorted/"
        "duplicated/without 0/single) with or without an EV, 5-40 ops of set_pilot at boundary+d for d in {0,+-0.5e-3,"
        "+-0.9e-3,+-1.1e-3,+-2e-3,+-1}, NaN, negatives, advertised values, plugin/unplug; 1 of 4: whole simulations with an "
        "invalid_pilot fault; non-trivial = probe within 2e-3 of a boundary with an EV connected; distinct = (EVSE class, "
        "parameter shape, sequence of probe kinds)")
PROBES = ["finite_levels_replaced_after_construction", "near_boundary_with_ev", "near_boundary_no_ev", "rejected", "accepted_edge", "nan_pilot", "advertised_value",
          "plugin_occupied", "world_invalid_pilot", "world_rejected_with_ev", "min_gt_zero_evse", "inf_max_evse", "advertised_inf_max",
          "finite_without_zero", "finite_unsorted_or_dup", "twin_evses_world", "world_resume_json", "world_advertised_value",
          "plugin_occupied_same_session_id", "world_party_scribbled_on_handed_info", "rates_given_as_one_shot_iterable", "plugin_occupied_via_network", "plugin_occupied_newcomer_after_occupants_departure", "pilot_sent_through_network", "bench_network_over_64_stations", "plugin_occupied_same_object", "near_duplicate_levels",
          "caller_keeps_the_rate_list_it_passed", "caller_edited_its_own_rate_list", "subclass_overrides_rate_properties", "last_accepted_pilot_sent_again_after_rerating", "bench_json_restart"]
FAULT_DIMENSION = ("misbehaving scheduler: out-of-set pilot at an arbitrary call of a run (terminal fault, judged on the rejected station); "
                   "scheduler crash + JSON save/load (advertised limits must still be each station's own)")
REAL_VS_STUB = "real: EVSE, DeadbandEVSE, FiniteRatesEVSE, EV, Battery models, ChargingNetwork, Interface, Simulator; ours: probing party"
ASSUMPTIONS = ["accepted <=> dist(pilot, allowable set of the scenario) <= 1e-3, with a guard band of 1e-9 around exactly 1e-3 (inconclusive)",
               "a rejected pilot aborts the period half-way by design: only the rejected station is judged"]
P_WORLD = world.profile(party={"scripted": 1}, faults={"invalid_pilot": 1.0, "crash": 0.5, "mutate": 0.6}, resume_modes=["rerun", "json_str", "json_buf"],
                        evse_kinds={"cont": 3, "dead": 3, "finite": 3, "cont_inf": 1, "cont_neg": 1}, stations=(2, 6))
DELTAS = [0.0, 0.5e-3, -0.5e-3, 0.9e-3, -0.9e-3, 1.1e-3, -1.1e-3, 2e-3, -2e-3, 1.0, -1.0]


def candidates(sc):
    if "ops" in sc:
        return ops_candidates(sc, "ops")
    return world_candidates(sc)


def boundaries(e):
    if e["type"] == "EVSE":
        b = [e.get("min", 0)]
        if e["max"] is not None:
            b.append(e["max"])
        return b
    if e["type"] == "Deadband":
        b = [0, e["deadband_end"]]
        if e["max"] is not None:
            b.append(e["max"])
        return b
    return evse_levels(e)


def dist(e, p):
    if p != p:
        return float("inf")
    if math.isinf(p) and p > 0 and e["type"] != "Finite" and e["max"] is None:
        return 0.0          # +inf is the advertised maximum of an EVSE built without a finite max_rate
    if e["type"] == "EVSE":
        mx = float("inf") if e["max"] is None else e["max"]
        return max(e.get("min", 0) - p, p - mx, 0.0)
    if e["type"] == "Deadband":
        mx = float("inf") if e["max"] is None else e["max"]
        return min(abs(p), max(e["deadband_end"] - p, p - mx, 0.0))
    return min(abs(p - a) for a in evse_levels(e))


def gen(rs, tier):
    if rs % 4 == 0:
        sc = world.gen_world(rs, P_WORLD)
        r = sub(rs, "twins")
        st = sc["network"]["stations"]
        if len(st) >= 2 and r.random() < 0.5:
            # 'twin' EVSEs: same class, same minimum and maximum, different allowable sets in between
            a, b = r.sample(range(len(st)), 2)
            if r.random() < 0.5:
                lo, hi = r.choice([6, 8]), r.choice([24, 32])
                st[a]["evse"] = {"type": "Finite", "rates": [0, lo, hi]}
                st[b]["evse"] = {"type": "Finite", "rates": [0, lo] + sorted(r.sample(range(lo + 1, hi), 3)) + [hi]}
            else:
                hi = r.choice([16, 32])
                st[a]["evse"] = {"type": "Deadband", "deadband_end": 6, "max": hi}
                st[b]["evse"] = {"type": "Deadband", "deadband_end": r.choice([4, 8, 10]), "max": hi}
            sc["twins"] = [st[a]["id"], st[b]["id"]]
        return sc
    r = sub(rs, "evse")
    kind = r.choice(["cont", "cont", "dead", "dead", "finite", "finite", "finite", "cont_inf", "cont_min", "cont_neg"])
    if sub(rs, "zero_max").random() < 0.04:
        kind = "cont_zero"          # a station taken out of service: max_rate = 0
    if kind == "cont_min":
        mn = r.choice([6, 1, round(r.uniform(0.5, 10), 2)])
        e = {"type": "EVSE", "max": r.choice([None, 32, round(mn + r.uniform(0.01, 40), 2)]), "min": mn}
    else:
        e = _gen_evse(r, kind)
        if kind == "dead" and r.random() < 0.2:
            e["max"] = None
    with_ev = r.random() < 0.6
    ev = None
    if with_ev:
        cap = round(r.uniform(1, 80), 3)
        b = {"type": r.choice(["Battery", "Linear2Stage"]), "capacity": cap, "init": round(cap * r.uniform(0, 0.9), 4),
             "max_power": round(r.uniform(1, 12), 3)}
        if b["type"] == "Linear2Stage":
            b["transition_soc"] = r.choice([0.8, 0.5, 0.0])
            b["calc"] = r.choice(["continuous", "stepwise"])
            b["noise"] = 0
        ev = {"battery": b, "energy": round(r.uniform(0.5, cap), 3)}
    bs = boundaries(e)
    ops = []
    occupied = False
    if ev is not None:
        ops.append({"op": "plugin"})
        occupied = True
    for _ in range(r.randint(5, 40)):
        k = r.random()
        if k < 0.72:
            d = r.choice(DELTAS)
            ops.append({"op": "set", "v": r.choice(bs) + d, "kind": "edge"})
        elif k < 0.76:
            ops.append({"op": "set", "v": r.choice([float("nan"), float("nan"), float("inf"), float("-inf")]), "kind": "nan"})
        elif k < 0.80:
            ops.append({"op": "set", "v": -r.choice([0.5, 1, 6, 32]), "kind": "neg"})
        elif k < 0.86:
            lo, hi = min(bs), max(bs)
            ops.append({"op": "set", "v": r.uniform(lo - 2, hi + 2), "kind": "rand"})
        elif k < 0.92:
            if e["type"] == "Finite" and r.random() < 0.25:
                # the owner derates / re-rates the charger after construction through its public attribute allowable_rates
                ops.append({"op": "rerate", "mode": r.choice(["cut_top", "cut_top", "cut_bottom", "append_higher"]), "u": r.random()})
                ops.append({"op": "repeat_last_accepted"})    # the pilot that was fine a moment ago is sent again after the re-rating
            ops.append({"op": "advertised"})
        elif k < 0.93:
            ops.append({"op": "roundtrip"})       # restart: the charger (with whatever is plugged in) is saved to JSON and loaded back
        elif k < 0.96 and ev is not None:
            ops.append({"op": "plugin", "same_id": r.random() < 0.4, "same_object": r.random() < 0.2, "via_network": r.random() < 0.5,
                        "intr_arrival": r.choice([0, 50, 100, 100, 150])})
        elif ev is not None:
            ops.append({"op": "unplug"})
    sc = {"seed": rs, "evse": e, "ev": ev, "ops": ops, "voltage": r.choice([120, 208, 240]), "period": r.choice([1, 5, 15]),
          "filler_stations": sub(rs, "filler").choice([0] * 11 + [70]),
          "rates_form": r.choice(["list", "list", "iter", "gen", "map", "tuple", "ndarray"])}
    rx = sub(rs, "c13_extras")
    if e["type"] == "Finite" and sc["rates_form"] == "list" and rx.random() < 0.5:
        # the caller keeps the list it handed to the constructor and goes on using it (one list grown station by station, a level
        # corrected in place): the charger built earlier must not follow
        sc["own_list_normalised"] = rx.random() < 0.6          # handed over already sorted, without repeats, with its 0
        ops.insert(rx.randint(0, max(0, len(ops) - 2)), {"op": "caller_edits_own_list", "how": rx.choice(["append", "append", "bump", "insert", "clear"]), "u": rx.random()})
    if e["type"] in ("EVSE", "Deadband") and e.get("max") is not None and rx.random() < 0.12:
        # a user subclass that derates the charger (max_rate property) or imposes a site floor (min_rate property): what it
        # advertises and what it accepts both follow the overridden properties
        f_ = rx.choice([0.8, 0.5, 0.9])
        lo_ = e.get("deadband_end", e.get("min", 0))
        if e["max"] * f_ > lo_ + 0.5:
            sc["derate"] = f_
            for d_ in rx.sample(DELTAS, 4):
                ops.insert(rx.randint(0, len(ops)), {"op": "set", "v": e["max"] * f_ + d_, "kind": "edge"})
        if e["type"] == "EVSE" and e.get("min", 0) == 0 and e["max"] * f_ > 7 and rx.random() < 0.4:
            sc["floor"] = 6
            for d_ in rx.sample(DELTAS, 3):
                ops.insert(rx.randint(0, len(ops)), {"op": "set", "v": 6 + d_, "kind": "edge"})
    return sc


def check(sc):
    if "ops" not in sc:
        return check_world(sc)
    import warnings
    out = Outcome()
    import copy as _copy
    e = _copy.deepcopy(sc["evse"])      # (a re-rate operation changes the model's level list too)
    log = []
    kinds = []
    if e["type"] == "EVSE" and e.get("min", 0) > 0:
        out.probe("min_gt_zero_evse")
    if e["type"] != "Finite" and e.get("max") is None:
        out.probe("inf_max_evse")
    if e["type"] == "Finite":
        if 0 not in e["rates"]:
            out.probe("finite_without_zero")
        if list(e["rates"]) != sorted(set(e["rates"])):
            out.probe("finite_unsorted_or_dup")
    try:
        with warnings.catch_warnings():
            warnings.simplefilter("ignore")
            if e["type"] == "Finite" and sc.get("rates_form") in ("iter", "gen", "map", "tuple", "ndarray"):
                rf = sc["rates_form"]
                rates_ = list(e["rates"])
                arg = {"iter": lambda: iter(rates_), "gen": lambda: (x for x in rates_), "map": lambda: map(float, rates_),
                       "tuple": lambda: tuple(rates_), "ndarray": lambda: np.array(rates_, dtype=float)}[rf]()
                evse = sut.FiniteRatesEVSE("X", arg)
                if rf in ("iter", "gen", "map"):
                    out.probe("rates_given_as_one_shot_iterable")
            elif e["type"] == "Finite" and "own_list_normalised" in sc:
                own_list = evse_levels(e) if sc["own_list_normalised"] else list(e["rates"])
                evse = sut.FiniteRatesEVSE("X", own_list)
                out.probe("caller_keeps_the_rate_list_it_passed")
            elif sc.get("derate") or sc.get("floor") is not None:
                base_cls = sut.EVSE if e["type"] == "EVSE" else sut.DeadbandEVSE
                f_, fl_ = sc.get("derate"), sc.get("floor")
                ns = {}
                if f_:
                    ns["max_rate"] = property(lambda self, _b=base_cls, _f=f_: _b.max_rate.fget(self) * _f)
                    e["max"] = e["max"] * f_
                if fl_ is not None:
                    ns["min_rate"] = property(lambda self, _v=fl_: _v)
                    e["min"] = fl_
                Sub = type("SiteLimited" + base_cls.__name__, (base_cls,), ns)
                mx_ = sc["evse"]["max"]
                evse = Sub("X", max_rate=mx_, min_rate=sc["evse"].get("min", 0)) if e["type"] == "EVSE" else Sub("X", deadband_end=e["deadband_end"], max_rate=mx_)
                out.probe("subclass_overrides_rate_properties")
            else:
                evse = build_evse("X", e)
            mk_ev = lambda i: sut.EV(0, 100, sc["ev"]["energy"], "X", "sess%d" % i, build_battery(sc["ev"]["battery"]))
            nw_ = sut.ChargingNetwork()          # the same EVSE, reached through a network it is registered in
            nfill = sc.get("filler_stations", 0)
            for f_ in range(nfill // 2):
                nw_.register_evse(sut.EVSE("F%03d" % f_, max_rate=32), 208, 0)
            nw_.register_evse(evse, sc["voltage"], 0)
            for f_ in range(nfill // 2, nfill):
                nw_.register_evse(sut.EVSE("F%03d" % f_, max_rate=32), 208, 0)
            row_x = nw_.station_ids.index("X")
            if nfill:
                out.probe("bench_network_over_64_stations")
            cur_ev = None
            nev = 0
            if e["type"] == "Finite":
                if 0 not in list(evse.allowable_pilot_signals):
                    out.add("C13/finite_without_zero", "allowable_pilot_signals %s lacks 0" % (list(evse.allowable_pilot_signals),))
                if list(evse.allowable_pilot_signals) != evse_levels(e):
                    out.add("C13/finite_levels", "advertised %s, scenario levels %s" % (list(evse.allowable_pilot_signals), evse_levels(e)))

            def snap():
                if cur_ev is None:
                    return (float(evse.current_pilot), None)
                return (float(evse.current_pilot), cur_ev.session_id, float(cur_ev.energy_delivered), cur_ev.current_charging_rate,
                        repr(cur_ev._battery._to_dict({})[0]))

            via_net = [sc["seed"] % 3]
            last_acc = [None]

            def try_set(v, label, i):
                nonlocal cur_ev
                d = dist(e, v)
                near = any(abs(v - b) <= 2e-3 for b in boundaries(e)) if v == v else False
                if near:
                    out.probe("near_boundary_with_ev" if cur_ev is not None else "near_boundary_no_ev")
                if v == v and math.isinf(v) and cur_ev is not None and sc["ev"]["battery"]["type"] != "Battery":
                    return      # an infinite pilot into the two-stage closed form is outside every stated law
                before = snap()
                try:
                    if via_net[0] % 3 == 2:
                        # the pilot reaches the EVSE the way the simulator sends it: one column of a pilot matrix for the whole network
                        out.probe("pilot_sent_through_network")
                        col = np.zeros((len(nw_.station_ids), 1))
                        col[row_x, 0] = v
                        nw_.update_pilots(col, 0, sc["period"])
                    else:
                        evse.set_pilot(v, sc["voltage"], sc["period"])
                    acc = True
                except sut.InvalidRateError:
                    acc = False
                via_net[0] += 1
                log.append((label, repr(v), acc))
                if abs(d - 1e-3) < 1e-9:
                    out.inconclusive += 1
                    return
                want = d <= 1e-3
                if acc != want:
                    out.add("C13/accept_reject", "op %d: set_pilot(%r) %s; distance to allowable set %r (%s)" % (i, v, "accepted" if acc else "rejected", d, e))
                    return
                if acc:
                    last_acc[0] = v
                    if label == "edge" and d > 0:
                        out.probe("accepted_edge")
                    if float(evse.current_pilot) != float(v):
                        out.add("C13/pilot_not_applied", "op %d: accepted pilot %r but current_pilot %r" % (i, v, evse.current_pilot))
                else:
                    out.probe("rejected")
                    after = snap()
                    if after != before:
                        out.add("C13/rejected_changed_state", "op %d: rejected pilot %r changed state %s -> %s" % (i, v, before, after))
            for i, op in enumerate(sc["ops"]):
                o = op["op"]
                kinds.append(o if o != "set" else op["kind"])
                if o == "set":
                    if op["kind"] == "nan":
                        out.probe("nan_pilot")
                    try_set(op["v"], op["kind"], i)
                elif o == "rerate":
                    lv = evse_levels(e)
                    pos = [x for x in lv if x > 0]
                    if op["mode"] == "cut_top" and len(pos) >= 2:
                        new = [0] + pos[:max(1, int(len(pos) * op["u"]))]
                    elif op["mode"] == "cut_bottom" and len(pos) >= 2:
                        new = [0] + pos[min(len(pos) - 1, 1 + int((len(pos) - 1) * op["u"])):]
                    elif op["mode"] == "append_higher":
                        new = lv + [max(lv) + round(1 + 30 * op["u"], 1)]
                    else:
                        continue
                    evse.allowable_rates = list(new)
                    e["rates"] = list(new)
                    out.probe("finite_levels_replaced_after_construction")
                elif o == "roundtrip":
                    if sc.get("derate") or sc.get("floor") is not None or "own_list_normalised" in sc or nfill:
                        continue          # (subclasses defined inside this function cannot be located by the loader; keep those benches in memory)
                    nw2_ = sut.ChargingNetwork.from_json(nw_.to_json())
                    nw_ = nw2_
                    evse = nw_._EVSEs["X"]
                    cur_ev = evse.ev
                    row_x = nw_.station_ids.index("X")
                    out.probe("bench_json_restart")
                    if e["type"] == "Finite" and list(evse.allowable_pilot_signals) != evse_levels(e):
                        out.add("C13/finite_levels", "op %d: after a JSON save / load the charger advertises %s, it was built with %s" % (i, list(evse.allowable_pilot_signals), evse_levels(e)))
                elif o == "repeat_last_accepted":
                    if last_acc[0] is not None:
                        out.probe("last_accepted_pilot_sent_again_after_rerating")
                        try_set(last_acc[0], "repeat", i)
                elif o == "caller_edits_own_list":
                    if "own_list_normalised" in sc and e["type"] == "Finite":
                        top_ = max(own_list) if own_list else 0
                        if op["how"] == "append":
                            own_list.append(top_ + round(1 + 20 * op["u"], 1))
                        elif op["how"] == "bump" and len(own_list) >= 2:
                            own_list[-1] = own_list[-1] + 3.5
                        elif op["how"] == "insert":
                            own_list.insert(1, round(0.5 + op["u"], 2))
                        else:
                            del own_list[:]
                        out.probe("caller_edited_its_own_rate_list")
                        if list(evse.allowable_pilot_signals) != evse_levels(e):
                            out.add("C13/levels_follow_callers_list", "op %d: after the caller edited the list it had passed to the constructor (%s) the charger "
                                    "advertises %s, it was built with %s" % (i, op["how"], list(evse.allowable_pilot_signals), evse_levels(e)))
                elif o == "advertised":
                    vals = [evse.max_rate, evse.min_rate] + list(evse.allowable_pilot_signals)
                    for v in vals:
                        out.probe("advertised_value")
                        if math.isinf(v):
                            out.probe("advertised_inf_max")
                        if e["type"] == "Deadband" and v == evse.min_rate:
                            pass
                        d = dist(e, v)
                        if d > 1e-3 + 1e-9:
                            out.add("C13/advertised_not_allowable", "advertised value %r is %r away from the allowable set %s" % (v, d, e))
                            break
                        try_set(v, "advertised", i)
                elif o == "plugin":
                    if cur_ev is None:
                        cur_ev = mk_ev(nev)
                        nev += 1
                        evse.plugin(cur_ev)
                        if evse.ev is not cur_ev:
                            out.add("C13/plugin", "op %d: plugged EV not attached" % i)
                    else:
                        out.probe("plugin_occupied")
                        intr = mk_ev(900 + i)
                        ia = op.get("intr_arrival", 0)
                        if ia:
                            # the newcomer's own record says it arrives when / after the occupant is due to leave (the occupant is
                            # still there: its unplug has not happened); refused all the same
                            intr = sut.EV(ia, ia + 60, sc["ev"]["energy"], "X", "sess%d" % (900 + i), build_battery(sc["ev"]["battery"]))
                            out.probe("plugin_occupied_newcomer_after_occupants_departure" if ia >= 100 else "plugin_occupied")
                        if op.get("same_object"):
                            intr = cur_ev           # the occupant itself is plugged in a second time (a re-processed plug-in event)
                            out.probe("plugin_occupied_same_object")
                        elif op.get("same_id"):
                            # another EV object carrying the occupant's session id (a stale copy, a reloaded record)
                            intr = sut.EV(0, 100, sc["ev"]["energy"], "X", cur_ev.session_id, build_battery(sc["ev"]["battery"]))
                            out.probe("plugin_occupied_same_session_id")
                        try:
                            if op.get("via_network"):
                                out.probe("plugin_occupied_via_network")
                                nw_.plugin(intr)
                            else:
                                evse.plugin(intr)
                            out.add("C13/plugin_occupied_accepted", "op %d: plugin into an occupied station succeeded" % i)
                        except (sut.StationOccupiedError, sut.cn_mod.StationOccupiedError):
                            pass
                        if evse.ev is not cur_ev:
                            out.add("C13/occupant_replaced", "op %d: occupant changed after refused plugin" % i)
                elif o == "unplug":
                    evse.unplug()
                    cur_ev = None
                    if evse.ev is not None or evse.current_pilot != 0:
                        out.add("C13/unplug", "op %d: after unplug ev=%r pilot=%r" % (i, evse.ev, evse.current_pilot))
                if out.viol:
                    break
    except Exception as x:
        from ..driver import classify_exception
        if classify_exception(x) == "harness":
            raise
        out.add("C13/exception:" + type(x).__name__, str(x)[:200])
    out.nontrivial = out.probes.get("near_boundary_with_ev", 0) > 0
    out.sig = digest((e["type"], e.get("max") is None, e.get("min", 0) > 0, len(e.get("rates", [])), kinds[:12]))
    out.digest = digest(log)
    out.calls = len(sc["ops"])
    return out


def check_world(sc):
    tr = driver.run_world(sc, observe=2)
    out = base_outcome(tr)
    st = {s["id"]: s for s in sc["network"]["stations"]}
    if sc.get("twins"):
        out.probe("twin_evses_world")
    out.probe("world_party_scribbled_on_handed_info", tr.fault_counts.get("mutate", 0))
    out.probe("world_resume_json", sum(1 for r_ in tr.resumes if r_["mode"] != "rerun"))
    # what the network / interface advertise for every station, at every call, is that station's own allowable set
    for c in tr.calls:
        ps = c.get("per_station")
        if not ps or out.viol:
            continue
        for sid, q in ps.items():
            e = st[sid]["evse"]
            vals = [q["max"], q["min"]] + [float(a) for a in q["allow"][1]]
            out.probe("world_advertised_value", len(vals))
            for v in vals:
                if e["type"] == "Deadband" and v == q["min"] and v == 0:
                    continue
                if dist(e, v) > 1e-3 + 1e-9:
                    out.add("C13/world_advertised_not_allowable", "t=%d station %s is advertised %r (max %r, min %r, allowable %s) but its EVSE %s "
                            "would reject it" % (c["t"], sid, v, q["max"], q["min"], q["allow"], e))
                    break
            if out.viol:
                break
            want = boundaries(e) if e["type"] == "Finite" else None
            if want is not None and [float(a) for a in q["allow"][1]] != [float(a) for a in want]:
                out.add("C13/world_advertised_levels", "t=%d station %s is advertised levels %s, its EVSE has %s" % (c["t"], sid, q["allow"][1], want))
                break
    inv_calls = [c for c in tr.calls if c.get("invalid")]
    for c in inv_calls:
        out.probe("world_invalid_pilot")
    if tr.terminal == "invalid_pilot":
        iv = tr.invalid
        if iv["pre"][0] is not None:
            out.probe("world_rejected_with_ev")
            out.nontrivial = True
        if iv["exc"] != "InvalidRateError":
            out.add("C13/world_wrong_exception", "invalid pilot %r for station %s surfaced as %s" % (iv["value"], iv["station"], iv["exc"]))
        if iv["pre"] != iv["post"]:
            out.add("C13/world_rejected_changed_state", "station %s (session, pilot, energy, battery charge) %s -> %s after rejected pilot %r"
                    % (iv["station"], iv["pre"], iv["post"], iv["value"]))
        return out
    for c in inv_calls:
        if c.get("completed"):
            sid, v = c["invalid"]
            d = dist(st[sid]["evse"], v)
            if d > 1e-3 + 1e-9 and tr.exc is None:
                out.add("C13/world_invalid_accepted", "pilot %r (distance %r from allowable set) for station %s was applied without error" % (v, d, sid))
    completion(tr, out, "C13", required=False)
    return out
