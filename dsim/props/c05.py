"""C05 - the scheduler is invoked exactly when required and sees the true, isolated state."""
import copy
from datetime import timedelta
from .. import world, driver, sut
from ..build import build_start
from ..worldprop import base_outcome, completion, close, REAL_VS_STUB  # noqa
from ..world import evse_levels

np = sut.np
ID = "C05"
RUNS = {"quick": 8000, "thorough": 150000}
BUDGET = {"quick": 45, "thorough": 780}
RULE = ("worlds with max_recompute in {None,1,2,3,7}, idle stretches, sessions finishing early, all parties; at some "
        "calls the party scribbles over every object it was handed; non-trivial = >=1 timer-only invocation and >=1 "
        "mutation fault; distinct = per-period history signature")
PROBES = ["stochastic_network_world", "swapped_in_session_seen", "remaining_amp_periods_checked", "aware_start", "aware_start_run_crosses_dst", "timer_only_call", "mutation", "session_finished_early_hidden", "third_period_pilots", "resumed", "paired_run",
          "arrival_this_period_seen", "departure_this_period_hidden", "infra_seen_after_reconfig", "custom_event_with_builtin", "mutate_then_crash", "scheduler_swapped_in_before_run",
          "cable_pulled_at_interruption", "limit_changed_at_interruption"]
FAULT_DIMENSION = ("party mutates handed SessionInfo / InfrastructureInfo / Constraint objects; scheduler crash + rerun; "
                   "operator changes a constraint limit between two periods (the scheduler must see the new, true limits)")
ASSUMPTIONS = ["'handed' = argument of schedule(), results of active_sessions(), infrastructure_info(), get_constraints()",
               "truth for delivered energy/rates/pilots is the end-of-period tap of the previous period"]

PROFILE = world.profile(zero_demand=0.05, aware_start=0.25, reconfig=0.25, forced_unplug=0.35, custom_events=0.25, faults={"mutate": 1.2, "crash": 0.3, "mutate_crash": 0.4}, resume_modes=["rerun"],
                        max_recompute=[None, 1, 2, 3, 7], horizon=(6, 36), chain_fill=(0.2, 0.8), b2b=0.3,
                        demand=(0.02, 1.2), party={"scripted": 4, "uncontrolled": 2, "greedy": 3, "rr": 1},
                        evse_kinds={"cont": 4, "dead": 2, "finite": 3})


P_STOCH = world.profile(net="stochastic", stations=(1, 4), horizon=(4, 24), hot=0.5, party={"uncontrolled": 2, "greedy": 2, "scripted": 2},
                        evse_kinds={"cont": 3, "finite": 2}, noise=0.0, stoch_early=0.3, sessions_cap=12, faults={"crash": 0.2}, resume_modes=["rerun"])


def check_stochastic(sc):
    """On the contributed StochasticNetwork a session's station is decided at run time (waiting vehicles are swapped into freed
    spaces), so the per-session clauses are judged against what was observed: the previous period's actual rate of a session is
    what was recorded, in that period, at the station the session occupied while it charged - 0 if it was not connected."""
    tr = driver.run_world(sc, observe=1)
    out = base_outcome(tr)
    out.probe("stochastic_network_world")
    if not completion(tr, out, "C05", required=False):
        return out
    by_t = {p_["t"]: p_ for p_ in tr.periods}
    for c in tr.calls:
        if not c.get("completed") or "last_rate" not in c:
            continue
        t = c["t"]
        if c["now"] != t:
            out.add("C05/current_time", "call in period %d saw current_time %r" % (t, c["now"]))
        prev = by_t.get(t - 1)
        truth = {}
        if prev is not None and prev.get("pre") is not None and prev["rates"] is not None:
            for i_, (st_, v_) in enumerate(prev["pre"]["st"].items()):
                if v_[0] is not None:
                    truth[v_[0]] = prev["rates"][i_]
        for x in c["sessions"]:
            sid = x["session_id"]
            want = truth.get(sid, 0.0)
            got = c["last_rate"].get(sid)
            out.probe("swapped_in_session_seen" if (sid not in truth and prev is not None and x["arrival"] < t) else "session_seen")
            if got is None or not close(got, want):
                out.add("C05/last_actual_rate", "t=%d session %s (now at %s): interface says it drew %r A in period %d, recorded for it: %r A%s"
                        % (t, sid, x["station_id"], got, t - 1, want, "" if sid in truth else " (it was not connected in that period)"))
                return out
    return out


def gen(rs, tier):
    if rs % 11 == 0:
        sc = world.gen_world(rs, P_STOCH)
        sc["party"]["subset_mode"] = "all"
        return sc
    sc = world.gen_world(rs, PROFILE)
    if sc["party"]["kind"] in ("greedy", "rr", "uncontrolled") and rs % 3 == 0:
        # real algorithms with a slower timer (their own default is 1)
        sc["party"]["max_recompute"] = [2, 3, None][rs % 3]
    sc["faults"] = world.gen_faults(rs, sc, PROFILE)
    if rs % 4 == 1:
        sc["sim"]["built_with_max_recompute"] = [None, 1, 2, 5][(rs // 4) % 4]
    world.place_crash_interventions(rs, sc, PROFILE)
    return sc


def expected_allowable(e):
    if e["type"] == "EVSE":
        return True, [e.get("min", 0), float("inf") if e["max"] is None else e["max"]]
    if e["type"] == "Deadband":
        return True, [e["deadband_end"], float("inf") if e["max"] is None else e["max"]]
    return False, evse_levels(e)


def check(sc):
    if sc["network"]["kind"] == "stochastic":
        return check_stochastic(sc)
    tr = driver.run_world(sc, observe=2)
    out = base_outcome(tr)
    ok = completion(tr, out, "C05", required=False)
    ids = [s["id"] for s in sc["network"]["stations"]]
    st = {s["id"]: s for s in sc["network"]["stations"]}
    sess = {s["session_id"]: s for s in sc["sessions"]}
    period = sc["sim"]["period"]
    start = build_start(sc["sim"])
    ev = world.event_times(sc)
    if sc["sim"].get("start_tz"):
        out.probe("aware_start")
        end_ = start + timedelta(minutes=period) * world.last_event_time(sc)
        if start.tzinfo.normalize(end_).utcoffset() != start.utcoffset():
            out.probe("aware_start_run_crosses_dst")
    exp_calls = world.call_periods(sc)
    done = [c for c in tr.calls if c.get("completed")]
    got = [c["t"] for c in done]
    n_periods = len(tr.periods)
    mr = sc["party"]["max_recompute"]
    timer_only = [t for t in exp_calls if t not in ev and not (t == 0 and mr is not None)]
    out.probe("timer_only_call", len([t for t in exp_calls if t not in ev]))
    out.probe("mutation", tr.fault_counts.get("mutate", 0))
    if "built_with_max_recompute" in sc["sim"]:
        out.probe("scheduler_swapped_in_before_run")
    out.probe("custom_event_with_builtin", sum(1 for e in sc["extra_events"] if e.get("type") == "Event"))
    out.probe("resumed", len(tr.resumes))
    out.nontrivial = any(t not in ev for t in exp_calls) and tr.fault_counts.get("mutate", 0) > 0
    # (a) invocation times
    want = [t for t in exp_calls if t < n_periods] if not ok else exp_calls
    if world.ambiguous_periods(sc):
        out.inconclusive += 1          # a period holding only a user-defined Event: not judged (see world.ambiguous_periods)
    elif got != want:
        extra = [t for t in got if t not in want]
        missing = [t for t in want if t not in got]
        dup = sorted({t for t in got if got.count(t) > 1})
        out.add("C05/invocation_times", "completed calls at %s, required at %s (extra %s missing %s duplicate %s; max_recompute=%r)"
                % (got[:25], want[:25], extra[:8], missing[:8], dup[:5], mr))
    # (b) observed state at each call
    by_t = {p["t"]: p for p in tr.periods}
    pulled = {e_[3]: e_[1] for e_ in tr.ctx.events if e_[0] == "forced_unplug"}      # session -> period of the intervention
    out.probe("cable_pulled_at_interruption", len(pulled))
    out.probe("limit_changed_at_interruption", tr.fault_counts.get("reconfig_at_interruption", 0))
    infra_ref = None
    for c in done:
        t = c["t"]
        if "now" not in c:
            continue
        if c["now"] != t:
            out.add("C05/current_time", "call in period %d saw current_time %r" % (t, c["now"]))
        # (2 microseconds of slack: start + t x period is exact here up to the rounding of a fractional period to whole microseconds)
        ref_dt = start + timedelta(minutes=period) * t
        if (c["datetime"].tzinfo is None) != (ref_dt.tzinfo is None):
            out.add("C05/current_datetime", "t=%d saw %r, expected %r (time-zone awareness differs from the start instant's)" % (t, c["datetime"], ref_dt))
        elif abs(c["datetime"] - ref_dt) > timedelta(microseconds=2):   # aware values compare as instants
            out.add("C05/current_datetime", "t=%d saw %s expected %s" % (t, c["datetime"], start + timedelta(minutes=period) * t))
        prev = by_t.get(t - 1)
        prev_e = {}
        prev_rate = {}
        prev_pilot = {}
        if prev is not None:
            for i, s in enumerate(ids):
                v = prev["st"][s]
                if v[0] is not None:
                    prev_e[v[0]] = v[2]
                    prev_rate[v[0]] = prev["rates"][i]
                    prev_pilot[v[0]] = prev["pilots"][i]
        exp = {}
        for s in sc["sessions"]:
            if s["session_id"] in pulled and pulled[s["session_id"]] <= t:
                continue       # the operator pulled this cable at an interruption point: not connected any more
            if s["arrival"] <= t < s["departure"]:
                e = prev_e.get(s["session_id"], 0.0) if s["arrival"] < t else 0.0
                margin = (s["energy"] - e) - 1e-3
                if abs(margin) < 1e-9:
                    out.inconclusive += 1
                    exp = None
                    break
                if margin > 0:
                    exp[s["session_id"]] = (s, e)
                else:
                    out.probe("session_finished_early_hidden")
        if exp is None:
            continue
        seen = {x["session_id"]: x for x in c["sessions"]}
        if len(seen) != len(c["sessions"]) or set(seen) != set(exp):
            out.add("C05/session_set", "t=%d scheduler saw sessions %s, truth (connected, unsatisfied) %s"
                    % (t, sorted(x["session_id"] for x in c["sessions"]), sorted(exp)))
            continue
        for sid, (s, e) in exp.items():
            x = seen[sid]
            if s["arrival"] == t:
                out.probe("arrival_this_period_seen")
            truth = dict(station_id=s["station"], requested_energy=s["energy"], arrival=s["arrival"], departure=s["departure"],
                         estimated_departure=s.get("est_departure", s["departure"]), current_time=t)
            for k, v in truth.items():
                if x[k] != v:
                    out.add("C05/session_field", "t=%d session %s field %s seen %r truth %r" % (t, sid, k, x[k], v))
            if not close(x["energy_delivered"], e):
                out.add("C05/energy_delivered_seen", "t=%d session %s saw %r truth %r" % (t, sid, x["energy_delivered"], e))
            ra = next((v_ for sid_, st_, v_ in c.get("rem_ap", []) if sid_ == sid and st_ == s["station"]), None)
            if "rem_ap_error" in c:
                out.add("C05/remaining_amp_periods", "t=%d interface raised %s" % (t, c["rem_ap_error"]))
            elif ra is not None:
                want_ra = (s["energy"] - e) * 1000.0 / st[s["station"]]["voltage"] * 60.0 / period
                out.probe("remaining_amp_periods_checked")
                if not close(ra, want_ra, rel=1e-9):
                    out.add("C05/remaining_amp_periods", "t=%d session %s: interface says %r A*periods remaining, truth %r" % (t, sid, ra, want_ra))
            if x["min0"] != 0 or x["max0"] != float("inf"):
                out.add("C05/session_bounds", "t=%d session %s min/max %r/%r" % (t, sid, x["min0"], x["max0"]))
        out.probe("departure_this_period_hidden", sum(1 for k, s_ in ev.get(t, []) if k == "Unplug"))
        # previous period's actual rates
        exp_rate = {sid: (prev_rate.get(sid, 0.0) if exp[sid][0]["arrival"] < t else 0.0) for sid in exp}
        if set(c["last_rate"]) != set(exp_rate) or any(not close(c["last_rate"][k], exp_rate[k]) for k in exp_rate):
            out.add("C05/last_actual_rate", "t=%d saw %s truth %s" % (t, c["last_rate"], exp_rate))
        # peak
        pk = prev["peak"] if prev is not None else 0.0
        truth_pk = max([0.0] + [sum(p["rates"]) for p in tr.periods if p["t"] < t])
        if not close(c["prev_peak"], truth_pk, n=len(ids)):
            out.add("C05/prev_peak", "t=%d saw %r truth %r" % (t, c["prev_peak"], truth_pk))
        # pilots from the third period on
        if t >= 2:
            exp_p = {sid: prev_pilot[sid] for sid in exp if exp[sid][0]["arrival"] <= t - 1 and sid in prev_pilot}
            out.probe("third_period_pilots", 1 if exp_p else 0)
            if set(c["last_pilots"]) != set(exp_p) or any(c["last_pilots"][k] != exp_p[k] for k in exp_p):
                out.add("C05/last_applied_pilots", "t=%d saw %s truth %s" % (t, c["last_pilots"], exp_p))
        elif c["last_pilots"]:
            out.add("C05/last_applied_pilots_early", "t=%d saw %s" % (t, c["last_pilots"]))
        # infrastructure
        inf = c.get("infra")
        if inf is not None:
            if inf["station_ids"] != ids:
                out.add("C05/infra_station_ids", "%s vs %s" % (inf["station_ids"], ids))
                continue
            cons = world.constraints_at(sc, t)
            if any(r["t"] <= t for r in sc.get("reconfig", ())):
                out.probe("infra_seen_after_reconfig")
            M = [[float(k["coeffs"].get(s, 0)) for s in ids] for k in cons]
            got_M = inf["constraint_matrix"] or []
            if [list(map(float, r)) for r in got_M] != M:
                out.add("C05/infra_matrix", "t=%d matrix %s truth %s" % (t, got_M, M))
            if [float(x) for x in inf["constraint_limits"]] != [float(k["limit"]) for k in cons] or inf["constraint_ids"] != [k["name"] for k in cons]:
                out.add("C05/infra_limits", "t=%d limits %s ids %s" % (t, inf["constraint_limits"], inf["constraint_ids"]))
            if [float(x) for x in inf["phases"]] != [float(st[s]["phase"]) for s in ids] or \
                    [float(x) for x in inf["voltages"]] != [float(st[s]["voltage"]) for s in ids]:
                out.add("C05/infra_phase_voltage", "t=%d phases %s voltages %s" % (t, inf["phases"], inf["voltages"]))
            for i, s in enumerate(ids):
                cont, allow = expected_allowable(st[s]["evse"])
                mx = allow[-1]
                if st[s]["evse"]["type"] == "Finite":
                    pos = [a for a in allow if a > 0]
                    mn = min(pos) if pos else 0
                elif st[s]["evse"]["type"] == "Deadband":
                    mn = 0   # BaseEVSE.min_rate
                else:
                    mn = allow[0]
                ps = c["per_station"][s]
                if inf["is_continuous"][i] != cont or [float(a) for a in inf["allowable"][i]] != [float(a) for a in allow] \
                        or float(inf["max_pilot"][i]) != float(mx):
                    out.add("C05/infra_pilots", "t=%d station %s continuous=%r allowable=%s max=%r truth %r %s"
                            % (t, s, inf["is_continuous"][i], inf["allowable"][i], inf["max_pilot"][i], cont, allow))
                if ps["max"] != float(mx) or ps["volt"] != float(st[s]["voltage"]) or ps["phase"] != float(st[s]["phase"]) \
                        or ps["allow"][0] != cont or [float(a) for a in ps["allow"][1]] != [float(a) for a in allow] \
                        or ps["min"] != float(inf["min_pilot"][i]):
                    out.add("C05/interface_station_query", "t=%d station %s %s" % (t, s, ps))
    # (c) isolation
    for c in tr.calls:
        if c.get("fault") in ("mutate", "mutate_crash") and "digest_before_mutation" in c:
            if c["digest_before_mutation"] != c["digest_after_mutation"]:
                out.add("C05/mutation_changed_state", "t=%d mutating the handed objects changed simulator/network state" % c["t"])
    out.probe("mutate_then_crash", tr.fault_counts.get("mutate_crash", 0))
    if (tr.fault_counts.get("mutate") or tr.fault_counts.get("mutate_crash")) and not out.viol:
        sc2 = copy.deepcopy(sc)
        for f in sc2["faults"]:
            if f["kind"] == "mutate":
                f["kind"] = "noop"
            elif f["kind"] == "mutate_crash":
                f["kind"] = "crash"
                f["when"] = "after"
        tr2 = driver.run_world(sc2, observe=0, snapshot=False)
        out.probe("paired_run")
        same = (type(tr2.exc) is type(tr.exc)) and tr2.sim.iteration == tr.sim.iteration and \
            tr2.sim.pilot_signals.shape == tr.sim.pilot_signals.shape and \
            np.array_equal(tr2.sim.pilot_signals, tr.sim.pilot_signals) and \
            np.array_equal(tr2.sim.charging_rates, tr.sim.charging_rates) and \
            {k: v.energy_delivered for k, v in tr2.sim.ev_history.items()} == {k: v.energy_delivered for k, v in tr.sim.ev_history.items()}
        if not same:
            out.add("C05/mutation_altered_simulation", "run with mutating scheduler differs from the same run without mutations")
    return out
