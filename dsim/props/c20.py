"""C20 - ACN-Data client yields every session once (any paging) and converts times faithfully (client <-> fake server)."""
import datetime as dt
import os
import time
import zoneinfo

from .. import sut
from ..engine import Outcome
from ..rng import sub, digest
from ..models.acndata import FakeServer, rfc1123, parse_rfc1123, InjectedValueError

ID = "C20"
RUNS = {"quick": 60000, "thorough": 300000}
BUDGET = {"quick": 45, "thorough": 780}
CHUNK = 500
DET_EVERY = 300
RULE = ("fake ACN-Data server holding 0-250 documents (unique _id, RFC-1123 strings in several fields, time-series "
        "timestamps, per-document time zone) served in pages whose sizes the server chooses (empty pages in the middle/at "
        "the end, last page without next link); client called with every combination of cond/project/sort/timeseries or via "
        "get_sessions_by_time (the server parses the where clause back and filters); host TZ varied; non-trivial = >=3 pages "
        "with >=1 empty page, or a document in a DST-transition hour; distinct = (page plan shape, args, fault, TZ)")
PROBES = ["empty_page_middle", "empty_page_end", "zero_documents", "three_plus_pages", "dst_transition_doc", "timeseries_doc",
          "by_time_query", "page_chain_over_1000", "stale_meta_total", "equal_documents_query", "non_canonical_date_spelling", "fault:not_json", "fault:error_doc", "fault:connection", "invalid_site", "host_tz_non_utc",
          "roundtrip_checked", "timeseries_spans_dst", "timeseries_leaves_and_returns_to_its_first_offset", "cursor_style_paging_same_next_href", "concurrent_generators", "interleaved_switches", "underscore_date_field",
          "new_year_query_bound", "prelude_query_on_same_client"]
FAULT_DIMENSION = "interleaving of up to three generators of one client (seeded scheduler decides who advances); server-side faults at page k: non-JSON body, error document without _items, transport ConnectionError (client has no retry: must raise, never end silently)"
REAL_VS_STUB = "real: DataClient, acndata.utils (http_date, parse_http_date, parse_dates); stub: requests -> in-process fake server; reference: integer epoch arithmetic + zoneinfo"
ASSUMPTIONS = ["query values contain no '&' (the client does not URL-encode; out of the property's scope)",
               "naive datetimes are not passed to http_date (their meaning depends on the host zone by definition)"]
ZONES = ["America/Los_Angeles", "America/Los_Angeles", "UTC", "Asia/Kolkata", "Pacific/Chatham", "Europe/London", "America/New_York"]
HOST_TZ = ["UTC", "America/Los_Angeles", "Asia/Kolkata", "Pacific/Chatham"]
# instants around DST transitions (US 2019: Mar 10 10:00Z, Nov 3 09:00Z; EU 2019: Mar 31 01:00Z, Oct 27 01:00Z)
DST_EPOCHS = [1552212000, 1572771600, 1553994000, 1572138000]


def gen(rs, tier):
    r = sub(rs, "c20")
    n = r.choice([0, 0, 1, 2, 3, r.randint(0, 12), r.randint(0, 40), r.randint(100, 250) if tier == "thorough" and r.random() < 0.2 else r.randint(0, 30)])
    ts_mode = r.random() < 0.35
    long_chain = sub(rs, "long_chain").random() < (0.004 if tier == "quick" else 0.01)
    if long_chain:
        # a result set of more than a thousand pages (one session per page, as the time-series endpoint serves them)
        n = sub(rs, "long_chain_n").randint(1050, 1500)
        ts_mode = False
    base = 1514764800 + r.randint(0, 3 * 365 * 86400)
    docs = []
    for i in range(n):
        if r.random() < 0.15:
            e = r.choice(DST_EPOCHS) + r.randint(-3600, 3600)
        else:
            e = base + r.randint(0, 30 * 86400)
        dur = r.randint(60, 86400)
        d = {"_id": "id%04d_%d" % (i, r.randint(0, 999)), "connectionTime": e, "disconnectTime": e + dur,
             "doneChargingTime": (e + r.randint(0, dur)) if r.random() < 0.7 else None, "kWhDelivered": round(r.uniform(0.1, 60), 3),
             "sessionID": "sess_%d" % i, "spaceID": "CA-%d" % r.randint(300, 330), "timezone": r.choice(ZONES),
             "note": r.choice(["plain text", "Mon, not a date", "", "Tue, 99 Foo 2019 00:00:00 GMT"])}
        sp_ = sub(rs, "spelling", i).random()
        if sp_ < 0.12:
            d["_spelling"] = ["unpadded_day", "unpadded_hour", "double_space", "lower_gmt"][int(sp_ / 0.03)]
        if r.random() < 0.5:      # the API's own bookkeeping dates are RFC-1123 fields too
            d["_created"] = e + dur + r.randint(0, 86400)
            d["_updated"] = d["_created"] + r.randint(0, 86400)
        if ts_mode:
            k = r.randint(0, 6)
            step = r.choice([10, 10, 300, 1800, 3600])
            d["chargingCurrent"] = {"current": [round(r.uniform(0, 32), 2) for _ in range(k)],
                                    "timestamps": [e + step * j for j in range(k)]}
            ts2 = [e + step * j for j in range(k)]
            if k >= 3 and r.random() < 0.5:
                # the second series of the document was sampled on its own clock: same length, same first and last stamp, other
                # instants in between
                ts2 = [ts2[0]] + sorted(ts2[0] + 1 + r.randrange(max(1, ts2[-1] - ts2[0] - 1)) for _ in range(k - 2)) + [ts2[-1]]
            d["pilotSignal"] = {"pilot": [32] * k, "timestamps": ts2}
            rl = sub(rs, "long_series", i)
            if rl.random() < 0.12:
                # a slow logger: one sample a day / week / month / season, so that the series starts and ends under one UTC
                # offset of its zone and passes through one or more other offsets in between
                k = rl.randint(3, 30)
                step = rl.choice([86400, 7 * 86400, 30 * 86400 + 3600, 61 * 86400, 122 * 86400, 182 * 86400 + 1800])
                d["chargingCurrent"] = {"current": [round(rl.uniform(0, 32), 2) for _ in range(k)], "timestamps": [e + step * j for j in range(k)]}
                d["pilotSignal"] = {"pilot": [32] * k, "timestamps": [e + step * j + (rl.randrange(step) if 0 < j < k - 1 else 0) for j in range(k)]}
                d["_long_series"] = True
        docs.append(d)
    if len(docs) >= 2 and r.random() < 0.3:
        # two documents of different time zones that carry the very same instant (hence the same RFC-1123 string)
        i_, j_ = r.sample(range(len(docs)), 2)
        docs[j_]["connectionTime"] = docs[i_]["connectionTime"]
        docs[j_]["disconnectTime"] = max(docs[j_]["disconnectTime"], docs[j_]["connectionTime"] + 60)
        docs[j_]["timezone"] = r.choice([z for z in ZONES if z != docs[i_]["timezone"]])
    npages = r.choice([0, 1, 2, 3, 5, 8])
    pages = [r.choice([0, 0, 1, 2, 3, 5, 25, 100]) for _ in range(npages)]
    if r.random() < 0.2:
        pages.append(0)
    mode = r.choice(["plain", "plain", "by_time", "by_time", "invalid_site"])
    args = {"site": r.choice(["caltech", "jpl", "office001"])}
    if mode == "invalid_site":
        args["site"] = r.choice(["Caltech", "", "caltech ", "mit", "office002"])
    if mode == "plain":
        if r.random() < 0.5:
            args["cond"] = "kWhDelivered > %s" % r.choice([1, 5.5, 20])
        if r.random() < 0.4:
            args["project"] = '{"kWhDelivered": 1, "connectionTime": 1}'
        if r.random() < 0.5:
            args["sort"] = "connectionTime"
        args["timeseries"] = ts_mode and r.random() < 0.7
    elif mode == "by_time":
        lo = base + r.randint(0, 15 * 86400)
        if r.random() < 0.15:     # bounds around a New Year (local year != UTC year in most zones)
            lo = r.choice([1514764800, 1546300800, 1577836800, 1609459200]) + r.randint(-14 * 3600, 14 * 3600)
        args["start"] = lo if r.random() < 0.8 else None
        args["end"] = (lo + r.randint(0, 20 * 86400)) if r.random() < 0.8 else None
        args["min_energy"] = r.choice([None, None, 2, 10.5, 0, 0.0])
        args["timeseries"] = ts_mode and r.random() < 0.5
        args["arg_zone"] = r.choice(ZONES)
    fault = None
    if r.random() < 0.25 and mode != "invalid_site":
        fault = {"at": r.randint(0, max(0, len(pages))), "kind": r.choice(["not_json", "error_doc", "connection"])}
    extra = []
    if fault is None and mode != "invalid_site" and r.random() < 0.3:
        # further generators of the SAME client alive at the same time (other sites), advanced in a seeded interleaving
        for site in [x for x in ["caltech", "jpl", "office001"] if x != args["site"]][: r.randint(1, 2)]:
            m = r.randint(0, 12)
            extra.append({"site": site, "pages": [r.choice([0, 1, 1, 2, 3]) for _ in range(r.randint(0, 5))],
                          "docs": [{"_id": "%s%03d" % (site[:2], j), "connectionTime": base + r.randint(0, 86400 * 30),
                                    "disconnectTime": base + 86400 * 31, "doneChargingTime": None, "kWhDelivered": 1.0 + j,
                                    "sessionID": "x%d" % j, "spaceID": "Q", "timezone": r.choice(ZONES), "note": "n"} for j in range(m)]})
    prelude = None
    free_sites = []
    if True:
        # the same client (and library) has already served an earlier, different query: nothing of it may stick
        free_sites = [x for x in ["caltech", "jpl", "office001"] if x != args["site"] and x not in [q["site"] for q in extra]]
    if mode != "invalid_site" and fault is None and r.random() < 0.3 and free_sites:
        psite = free_sites[0]
        prelude = {"site": psite, "cond": r.choice([None, None, "kWhDelivered > 3"]), "sort": r.choice([None, "connectionTime"]),
                   "project": r.choice([None, '{"kWhDelivered": 1}']), "consume": r.choice([0, 1, 99]), "ndocs": r.randint(0, 4)}
    if long_chain:
        pages, mode, fault, extra, prelude = [1] * n, "plain", None, [], None
        args = {"site": args["site"] if args["site"] in ("caltech", "jpl", "office001") else "caltech", "timeseries": False}
    return {"seed": rs, "docs": docs, "pages": pages, "mode": mode, "args": args, "fault": fault, "extra_queries": extra, "prelude": prelude,
            "stale_total": sub(rs, "stale_total").choice([0, 0, 0, 0, 1, 3, 50]), "cursor_paging": sub(rs, "cursor").random() < 0.12,
            "equal_docs": (lambda q_: {"values": sorted(q_.choice([1.5, 2.0, 2.0, 7.25]) for _ in range(q_.randint(2, 12))),
                                       "pages": [q_.choice([1, 1, 2, 3]) for _ in range(q_.randint(1, 6))]} if q_.random() < 0.08 else None)(sub(rs, "equal_docs")),
            "host_tz": r.choice(HOST_TZ), "roundtrip": [(r.choice(DST_EPOCHS + [base]) + r.randint(-7200, 7200), r.choice(ZONES)) for _ in range(3)]}


def respell(s_, variant):
    """Other spellings of the same RFC-1123 / RFC-822 date that servers and proxies emit (all accepted by the stock parser)."""
    if variant == "unpadded_day":
        return s_[:5] + s_[5:].lstrip("0") if s_[5] == "0" else s_
    if variant == "unpadded_hour":
        i_ = len(s_) - 12
        return s_[:i_] + s_[i_ + 1:] if s_[i_] == "0" else s_
    if variant == "double_space":
        return s_.replace(" ", "  ", 1)
    if variant == "lower_gmt":
        return s_[:-3] + "gmt"
    return s_


def serialise(d):
    out = dict(d)
    variant = d.get("_spelling")
    out.pop("_spelling", None)
    out.pop("_long_series", None)
    for k in ("connectionTime", "disconnectTime", "doneChargingTime", "_created", "_updated"):
        if k in d:
            out[k] = respell(rfc1123(d[k]), variant) if d[k] is not None else None
    for k in ("chargingCurrent", "pilotSignal"):
        if k in d:
            out[k] = dict(d[k], timestamps=[rfc1123(x) for x in d[k]["timestamps"]])
    return out


def aware(epoch, zone):
    return dt.datetime.fromtimestamp(epoch, tz=zoneinfo.ZoneInfo(zone))


def check(sc):
    import warnings
    from acnportal.acndata import data_client as dc_mod
    from acnportal.acndata import utils as u
    import pytz
    out = Outcome()
    old_tz = os.environ.get("TZ")
    os.environ["TZ"] = sc["host_tz"]
    time.tzset()
    if sc["host_tz"] != "UTC":
        out.probe("host_tz_non_utc")
    raw = {d["_id"]: d for d in sc["docs"]}
    if any(d.get("_spelling") for d in sc["docs"]):
        out.probe("non_canonical_date_spelling")
    server = FakeServer([serialise(d) for d in sc["docs"]], sc["pages"],
                        faults=({sc["fault"]["at"]: sc["fault"]["kind"]} if sc["fault"] else None))
    server.stale_total = sc.get("stale_total", 0)
    server.cursor_mode = bool(sc.get("cursor_paging"))
    if server.cursor_mode:
        out.probe("cursor_style_paging_same_next_href")
    if server.stale_total:
        out.probe("stale_meta_total")
    for xq in sc.get("extra_queries", []):
        server.add_site(xq["site"], [serialise(d) for d in xq["docs"]], xq["pages"])
    orig = dc_mod.requests
    dc_mod.requests = server
    got = []
    xgot = {xq["site"]: [] for xq in sc.get("extra_queries", [])}
    err = None
    a = sc["args"]
    try:
        with warnings.catch_warnings():
            warnings.simplefilter("ignore")
            client = dc_mod.DataClient("tok3n")
            pq = sc.get("prelude")
            if pq:
                server.add_site(pq["site"], [serialise({"_id": "p%d" % j, "connectionTime": 1546300800 + 60 * j, "disconnectTime": 1546304400,
                                                        "doneChargingTime": None, "kWhDelivered": 5.0 + j, "sessionID": "p%d" % j, "spaceID": "P",
                                                        "timezone": "UTC", "note": "n"}) for j in range(pq["ndocs"])], [1, 1])
                gp = client.get_sessions(pq["site"], cond=pq["cond"], project=pq["project"], sort=pq["sort"])
                for _ in range(pq["consume"]):
                    if next(gp, None) is None:
                        break
                out.probe("prelude_query_on_same_client")
            try:
                if sc["mode"] == "by_time":
                    z = zoneinfo.ZoneInfo(a["arg_zone"])
                    s = dt.datetime.fromtimestamp(a["start"], tz=z) if a["start"] is not None else None
                    e = dt.datetime.fromtimestamp(a["end"], tz=z) if a["end"] is not None else None
                    it = client.get_sessions_by_time(a["site"], s, e, min_energy=a["min_energy"], timeseries=a["timeseries"])
                    out.probe("by_time_query")
                    for x_ in (s, e):
                        if x_ is not None and x_.year != x_.astimezone(dt.timezone.utc).year:
                            out.probe("new_year_query_bound")
                else:
                    it = client.get_sessions(a["site"], cond=a.get("cond"), project=a.get("project"), sort=a.get("sort"),
                                             timeseries=a.get("timeseries", False))
                steps = 0
                if len(sc["pages"]) > 1000:
                    out.probe("page_chain_over_1000")
                if not sc.get("extra_queries"):
                    for doc in it:
                        got.append(doc)
                        steps += 1
                        if steps > len(sc["docs"]) + 50:
                            out.add("C20/non_terminating", "generator yielded %d documents for %d on the server" % (steps, len(sc["docs"])))
                            break
                else:
                    # several generators of one client, stepped one item at a time in a seeded interleaving
                    out.probe("concurrent_generators")
                    live = [("main", it, got)]
                    for xq in sc["extra_queries"]:
                        live.append((xq["site"], client.get_sessions(xq["site"], sort=None), xgot[xq["site"]]))
                    ri = sub(sc["seed"], "interleave")
                    lastw = None
                    cap = len(sc["docs"]) + sum(len(x["docs"]) for x in sc["extra_queries"]) + 60
                    while live and steps < cap:
                        w = ri.randrange(len(live))
                        name, g, sink = live[w]
                        if lastw is not None and name != lastw:
                            out.probe("interleaved_switches")
                        lastw = name
                        steps += 1
                        try:
                            sink.append(next(g))
                        except StopIteration:
                            live.pop(w)
                    if live:
                        out.add("C20/non_terminating", "interleaved generators still alive after %d steps" % steps)
            except Exception as x:
                from ..driver import classify_exception
                if classify_exception(x) == "harness" and not isinstance(x, (server.ConnectionError, InjectedValueError)):
                    raise
                err = x
            # ---- expectations
            if sc["mode"] == "invalid_site":
                out.probe("invalid_site")
                if not isinstance(err, ValueError) or server.requests:
                    out.add("C20/invalid_site", "site %r: error %r, %d requests sent" % (a["site"], err, len(server.requests)))
            else:
                exp_q = {}
                if sc["mode"] == "by_time":
                    cond = []
                    if a["start"] is not None:
                        cond.append('connectionTime >= "%s"' % rfc1123(a["start"]))
                    if a["end"] is not None:
                        cond.append('connectionTime <= "%s"' % rfc1123(a["end"]))
                    if a["min_energy"] is not None:
                        cond.append("kWhDelivered > %s" % a["min_energy"])
                    where = " and ".join(cond)
                    exp_url = "sessions/" + a["site"] + ("/ts/" if a["timeseries"] else "") + "?where=" + where + \
                        "&sort=connectionTime&max_results=%d" % (1 if a["timeseries"] else 100)
                else:
                    parts = []
                    if a.get("cond") is not None:
                        parts.append("where=" + a["cond"])
                    if a.get("project") is not None:
                        parts.append("project=" + a["project"])
                    if a.get("sort") is not None:
                        parts.append("sort=" + a["sort"])
                    parts.append("max_results=%d" % (1 if a.get("timeseries") else 100))
                    exp_url = "sessions/" + a["site"] + ("/ts/" if a.get("timeseries") else "") + "?" + "&".join(parts)
                xs_ = tuple("sessions/%s?" % x["site"] for x in sc.get("extra_queries", [])) + \
                    ((("sessions/%s?" % sc["prelude"]["site"]),) if sc.get("prelude") else ())
                mine_ = [r for r in server.requests if not any(x in r[0] for x in xs_)]
                if not mine_ or mine_[0][0] != server.base + exp_url:
                    out.add("C20/first_request", "sent %r, expected %r" % (mine_[0][0] if mine_ else None, server.base + exp_url))
                elif any(r[1] != ("tok3n", "") for r in server.requests):
                    out.add("C20/auth", "auth %r" % ([r[1] for r in server.requests][:3],))
                order = [d["_id"] for d in (server._selected or [])]
                ids = [d["_id"] for d in got]
                for xq in sc.get("extra_queries", []):
                    st_ = server.extra[xq["site"]]
                    xo = [d["_id"] for d in (st_["selected"] or [])]
                    xi = [d["_id"] for d in xgot[xq["site"]]]
                    if err is None and xi != xo:
                        out.add("C20/concurrent_yield_sequence", "generator for site %s (alive together with %d others of the same client) "
                                "yielded %s, its server order is %s" % (xq["site"], len(sc["extra_queries"]), xi[:8], xo[:8]))
                plan = server._plan or []
                if server.fired is None:
                    if err is not None:
                        out.add("C20/exception:" + type(err).__name__, str(err)[:200])
                    elif ids != order:
                        out.add("C20/yield_sequence", "yielded %d docs %s..., server order has %d %s... (pages %s)" % (len(ids), ids[:6], len(order), order[:6], plan))
                    exp_reqs = [server.base + exp_url] + [server.base + "sessions/%s?page=%d&tok=%d" % (a["site"], k + 2, 7919 * (k + 2)) for k in range(len(plan) - 1)]
                    if server.cursor_mode:
                        exp_reqs = [server.base + exp_url] + [server.base + "sessions/%s?cursor=next" % a["site"]] * (len(plan) - 1)
                    mine = [r[0] for r in server.requests if not any(x in r[0] for x in xs_)]
                    if not out.viol and mine != exp_reqs:
                        out.add("C20/requests", "requests %s, expected %s" % (mine[:5], exp_reqs[:5]))
                else:
                    out.probe("fault:" + sc["fault"]["kind"])
                    k = server.fired[0]
                    before = sum(plan[:k])
                    if err is None:
                        out.add("C20/fault_swallowed", "server failed on request %d (%s) but the generator ended normally after %d docs" % (k, sc["fault"]["kind"], len(ids)))
                    elif ids != order[:before]:
                        out.add("C20/fault_prefix", "before the fault the generator yielded %s, expected exact prefix %s" % (ids[:8], order[:before][:8]))
                if len(plan) >= 3:
                    out.probe("three_plus_pages")
                if any(s == 0 for s in plan[:-1]) and len(plan) > 1:
                    out.probe("empty_page_middle")
                if plan and plan[-1] == 0 and len(plan) > 1:
                    out.probe("empty_page_end")
                if not order:
                    out.probe("zero_documents")
                # ---- time conversion of every yielded document
                for d in got:
                    src = raw[d["_id"]]
                    z = zoneinfo.ZoneInfo(src["timezone"])
                    for f in ("connectionTime", "disconnectTime", "doneChargingTime", "_created", "_updated"):
                        if f not in d or f not in src:
                            continue
                        if f.startswith("_"):
                            out.probe("underscore_date_field")
                        v = d[f]
                        if src[f] is None:
                            if v is not None:
                                out.add("C20/null_field", "%s became %r" % (f, v))
                            continue
                        if not isinstance(v, dt.datetime) or v.tzinfo is None:
                            out.add("C20/field_not_aware_datetime", "%s of %s is %r" % (f, d["_id"], v))
                            continue
                        want = dt.datetime.fromtimestamp(src[f], tz=z)
                        if int(v.timestamp()) != src[f] or v.utcoffset() != want.utcoffset() or \
                                (v.year, v.month, v.day, v.hour, v.minute, v.second) != (want.year, want.month, want.day, want.hour, want.minute, want.second):
                            out.add("C20/field_instant", "%s of %s: %s (offset %s), expected %s in %s" % (f, d["_id"], v.isoformat(), v.utcoffset(), want.isoformat(), src["timezone"]))
                        if any(abs(src[f] - e) <= 3600 for e in DST_EPOCHS):
                            out.probe("dst_transition_doc")
                    if d.get("note") != src["note"]:
                        out.add("C20/non_date_string_changed", "%r -> %r" % (src["note"], d.get("note")))
                    for f in ("chargingCurrent", "pilotSignal"):
                        if f in d and isinstance(d[f], dict) and "timestamps" in d[f]:
                            out.probe("timeseries_doc")
                            offs = set()
                            for v, e in zip(d[f]["timestamps"], src[f]["timestamps"]):
                                want = dt.datetime.fromtimestamp(e, tz=z)
                                offs.add(want.utcoffset())
                                if len(offs) > 1:
                                    out.probe("timeseries_spans_dst")
                                if not isinstance(v, dt.datetime) or v.tzinfo is None or int(v.timestamp()) != e or v.utcoffset() != want.utcoffset():
                                    out.add("C20/timeseries_timestamp", "%s of %s: %r expected %s" % (f, d["_id"], v, want.isoformat()))
                                    break
                            if len(d[f]["timestamps"]) != len(src[f]["timestamps"]):
                                out.add("C20/timeseries_length", f)
                            ol_ = [dt.datetime.fromtimestamp(e, tz=z).utcoffset() for e in src[f]["timestamps"]]
                            if len(ol_) >= 3 and ol_[0] == ol_[-1] and any(o_ != ol_[0] for o_ in ol_):
                                out.probe("timeseries_leaves_and_returns_to_its_first_offset")
                    if out.viol:
                        break
            # ---- http_date / parse_http_date round trip, under this host TZ
            for e, zone in sc["roundtrip"]:
                out.probe("roundtrip_checked")
                d0 = aware(e, zone)
                s = u.http_date(d0)
                if s != rfc1123(e):
                    out.add("C20/http_date", "http_date(%s) = %r, expected %r (host TZ %s)" % (d0.isoformat(), s, rfc1123(e), sc["host_tz"]))
                    break
                back = u.parse_http_date(s, pytz.timezone(zone))
                if int(back.timestamp()) != e or back.utcoffset() != d0.utcoffset() or back.tzinfo is None:
                    out.add("C20/roundtrip", "parse_http_date(http_date(%s)) = %s" % (d0.isoformat(), back.isoformat()))
                    break
    finally:
        dc_mod.requests = orig
        if old_tz is None:
            os.environ.pop("TZ", None)
        else:
            os.environ["TZ"] = old_tz
        time.tzset()
    if sc.get("equal_docs") and not out.viol:
        # a projection without '_id': several sessions are represented by equal documents; each is still one session
        ed = sc["equal_docs"]
        docs_e = [{"kWhDelivered": float(v_), "timezone": "UTC"} for v_ in ed["values"]]
        srv_e = FakeServer(docs_e, ed["pages"])
        dc_mod.requests = srv_e
        try:
            got_e = [dict(x_) for x_ in dc_mod.DataClient("tok3n").get_sessions("caltech", project='{"kWhDelivered": 1, "timezone": 1, "_id": 0}', sort="kWhDelivered")]
        finally:
            dc_mod.requests = orig
        out.probe("equal_documents_query")
        if [x_["kWhDelivered"] for x_ in got_e] != [float(v_) for v_ in ed["values"]]:
            out.add("C20/yield_sequence", "projection without _id: server holds %d sessions %s, generator yielded %d %s (pages %s)"
                    % (len(ed["values"]), ed["values"][:12], len(got_e), [x_["kWhDelivered"] for x_ in got_e][:12], ed["pages"]))
    plan = server._plan or []
    out.nontrivial = (len(plan) >= 3 and any(s == 0 for s in plan)) or out.probes.get("dst_transition_doc", 0) > 0
    out.sig = digest((tuple(min(s, 3) for s in plan), sc["mode"], sorted(k for k, v in sc["args"].items() if v), sc["fault"], sc["host_tz"]))
    out.digest = digest(([d["_id"] for d in got], [r[0] for r in server.requests], type(err).__name__ if err else None))
    out.calls = len(server.requests)
    if server.fired:
        out.faults = {server.fired[1]: 1}
    return out


def candidates(sc):
    import copy
    if sc["fault"]:
        c = copy.deepcopy(sc)
        c["fault"] = None
        yield c
    n = len(sc["docs"])
    if n > 2:
        for part in (sc["docs"][: n // 2], sc["docs"][n // 2:]):
            c = copy.deepcopy(sc)
            c["docs"] = copy.deepcopy(part)
            yield c
    for i in range(n):
        c = copy.deepcopy(sc)
        del c["docs"][i]
        yield c
    for i in range(len(sc["pages"])):
        c = copy.deepcopy(sc)
        del c["pages"][i]
        yield c
    if sc["host_tz"] != "UTC":
        c = copy.deepcopy(sc)
        c["host_tz"] = "UTC"
        yield c
