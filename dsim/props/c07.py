"""C07 - sorting-based algorithms only emit safe schedules, in all states reached during simulations."""
from .. import sut, world, driver
from ..models import phasor
from ..sortedworld import truth_sessions, cons_of, station_index
from ..world import evse_levels
from ..worldprop import base_outcome, completion, REAL_VS_STUB  # noqa

np = sut.np
ID = "C07"
RUNS = {"quick": 7000, "thorough": 100000}
BUDGET = {"quick": 50, "thorough": 800}
RULE = ("three-phase networks dimensioned so constraints bind in a good share of calls, continuous-from-zero and finite-rate "
        "EVSEs (unsorted/duplicated/no explicit 0), demands from a fraction of one minimum-pilot period to more than "
        "deliverable, session ids that are other stations' ids; wrapped greedy / round-robin x 5 sort orders x uninterrupted "
        "on/off x {no estimator, SimpleRampdown, stub estimator} x continuous_inc; non-trivial = a call with a binding "
        "constraint (some session got less than its own bound) and >=2 active sessions; distinct = history signature + options")
PROBES = ["binding_call", "nearly_finished_session", "estimator_bound_binding", "uninterrupted_min_applied", "crossed_session_ids",
          "resumed", "rr_call", "greedy_call", "finite_rate_station", "removed_finished_session", "constraint_free", "call_after_reconfig", "knife_edge_world", "sliver_world", "pilot_below_bisection_resolution", "sliver_pilot_next_to_large_pilot", "knife_edge_sum_rejected", "sorted_recompute_interval_not_1", "algorithm_retuned_mid_run"]
FAULT_DIMENSION = ("crash + rerun (estimator state carried across a resume); operator changes a constraint limit between two "
                   "periods (update_constraint); no fault alters the algorithm")
ASSUMPTIONS = ["network tolerances >= the algorithms' hard-wired 1e-5 / 1e-7 (the algorithm-side check does not read the network's)",
               "EVSEs whose continuous range excludes 0, deadband EVSEs and max_rate=inf are outside the property's scope",
               "allowable-set membership tolerance 1e-3 (the EVSE's own); demand/estimator bounds +1e-9"]
PROFILE = world.profile(reconfig=0.25, constraints={"three": 5, "single": 1, "none": 1}, binding=(0.15, 0.9), evse_kinds={"cont": 3, "finite": 4},
                        party={"greedy": 3, "rr": 2}, estimator={"none": 2, "rampdown": 2, "stub": 3}, uninterrupted=0.5,
                        sid_mode={"plain": 1, "crossed": 1}, faults={"crash": 0.3}, resume_modes=["rerun"],
                        demand=(0.01, 1.6), rr_inc=[0.05, 0.1, 0.5, 1, 3], stations=(2, 7), noise=0.2, horizon=(4, 24),
                        sorted_max_recompute=[1, 1, 1, 2, 4, None],
                        sorts=["fcfs", "lcfs", "edf", "llf", "lrpt", "fcfs", "lcfs", "edf", "llf", "lrpt", "user_id", "user_request"])


def gen(rs, tier):
    sc = world.gen_world(rs, PROFILE)
    sc["network"]["violation_tolerance"] = [1e-5, 1e-5, 1e-3, 0.01][rs % 4]
    sc["network"]["relative_tolerance"] = [1e-7, 1e-7, 1e-5, 1e-3][(rs // 4) % 4]
    r = world.sub(rs, "knife")
    if sc["network"]["constraints"] and r.random() < 0.15:
        # knife-edge flavour: one constraint's limit sits a hair (inside the tolerance formula's own resolution) below a sum
        # of maximum pilots the algorithm can reach exactly: limit = S - 1e-5 - 0.5e-7*S  =>  S is infeasible by 0.5e-7*S
        c = r.choice(sc["network"]["constraints"])
        st = {s_["id"]: s_ for s_ in sc["network"]["stations"]}
        mem = [m for m in c["coeffs"] if m in st]
        tgt = r.sample(mem, min(len(mem), r.choice([1, 2, 2, 3])))
        ph = st[mem[0]]["phase"]
        for m in mem:
            c["coeffs"][m] = 1
            st[m]["phase"] = ph
        from ..sortedworld import max_pilot as _mp
        S = sum(_mp(st[m]["evse"]) for m in tgt)
        if S > 1 and S != float("inf"):
            c["limit"] = S - 1e-5 - 0.5e-7 * S
            sc["knife_edge"] = {"constraint": c["name"], "targets": tgt, "sum": S}
            sc["reconfig"] = [x for x in sc.get("reconfig", []) if x["name"] != c["name"]]
            sc["network"]["violation_tolerance"] = 1e-5
            sc["network"]["relative_tolerance"] = 1e-7
            for s_ in sc["sessions"]:
                if s_["station"] in tgt:        # enough demand to ask for the maximum pilot
                    s_["energy"] = round(max(s_["energy"], _mp(st[s_["station"]]["evse"]) * st[s_["station"]]["voltage"] / 1000.0
                                             * sc["sim"]["period"] / 60.0 * (s_["departure"] - s_["arrival"]) * 1.2), 4)
                    s_["battery"]["capacity"] = max(s_["battery"]["capacity"], s_["battery"]["init"] + s_["energy"] * 1.5)
    rv = world.sub(rs, "sliver")
    cont = [s_ for s_ in sc["network"]["stations"] if s_["evse"]["type"] == "EVSE" and s_["evse"].get("min", 0) == 0
            and s_["evse"].get("max") not in (None, float("inf"))]
    if sc["party"]["kind"] == "greedy" and len(cont) >= 2 and "knife_edge" not in sc and rv.random() < 0.12:
        # sliver flavour: long periods; the session served first has a last sliver of demand worth less than 0.01 A for one period,
        # and shares a difference constraint (+1 / -1, same leg) with a hungry session served after it: the later session's
        # maximum depends on the sliver actually being in the emitted schedule
        a_, b_ = rv.sample(cont, 2)
        first = {}
        for x_ in sorted(sc["sessions"], key=lambda z: z["arrival"]):
            first.setdefault(x_["station"], x_)
        if a_["id"] in first and b_["id"] in first:
            sa, sb = first[a_["id"]], first[b_["id"]]
            period = rv.choice([60, 120, 240])
            sc["sim"]["period"] = period
            t0 = min(sa["arrival"], sb["arrival"])
            sa["arrival"] = sb["arrival"] = t0
            for x_ in (sa, sb):
                x_.pop("est_departure", None)
                x_.pop("ev_arrival", None)
            if sa["departure"] >= sb["departure"]:
                later_b = [x_ for x_ in sc["sessions"] if x_["station"] == b_["id"] and x_ is not sb]
                room = min([x_["arrival"] for x_ in later_b] + [sa["departure"] + 3])
                if room > sa["departure"]:
                    sb["departure"] = room
            if sa["departure"] < sb["departure"]:
                sc["party"]["sort"] = "edf"
                sc["party"].pop("uninterrupted", None)
                sc["party"]["estimator"] = "none"
                b_["phase"] = a_["phase"]
                ap = rv.uniform(0.006, 0.0099)
                sa["energy"] = ap * a_["voltage"] / 1000.0 * period / 60.0
                sa["battery"] = {"type": "Battery", "capacity": 50.0, "init": 10.0, "max_power": 20.0}
                sb["energy"] = round(b_["evse"]["max"] * b_["voltage"] / 1000.0 * period / 60.0 * (sb["departure"] - sb["arrival"]) * 1.5, 4)
                sb["battery"] = {"type": "Battery", "capacity": sb["energy"] * 2 + 10, "init": 1.0, "max_power": 200.0}
                lim = round(rv.uniform(0.3, 0.8) * b_["evse"]["max"] + rv.choice([0.0, 0.003, 0.0049, 0.0071]), 4)
                sc["network"]["constraints"].append({"name": "c_sliver", "coeffs": {b_["id"]: 1.0, a_["id"]: -1.0}, "limit": lim})
                sc["network"]["violation_tolerance"] = 1e-5
                sc["network"]["relative_tolerance"] = 1e-7
                sc["sliver"] = {"first": sa["session_id"], "then": sb["session_id"], "amp_periods": ap}
    if sc["party"]["kind"] == "rr":
        # keep the discretised continuous grids small (speed)
        inc = sc["party"].get("continuous_inc", 1)
        for s in sc["network"]["stations"]:
            if s["evse"]["type"] == "EVSE" and inc < 0.5:
                s["evse"]["max"] = min(s["evse"]["max"], 8)
    rrt = world.sub(rs, "retune")
    if sc["party"].get("estimator", "none") != "none" and rrt.random() < 0.15:
        # the estimator is handed over at construction, estimation is switched on only later in the run (public attribute)
        sc["party"]["estimate_late"] = True
        sc["party"]["retune"] = {"at_call": rrt.randint(2, 6), "set": {"estimate_max_rate": True}}
    elif sc["party"]["kind"] == "rr" and rrt.random() < 0.15:
        cur_ = sc["party"].get("continuous_inc", 1)
        sc["party"]["retune"] = {"at_call": rrt.randint(2, 6), "set": {"continuous_inc": rrt.choice([x_ for x_ in (0.5, 1, 3) if x_ != cur_])}}
    return sc


def in_allowable(e, v):
    if e["type"] == "EVSE":
        return e.get("min", 0) - 1e-3 <= v <= e["max"] + 1e-3
    return min(abs(v - a) for a in evse_levels(e)) <= 1e-3


def check(sc):
    box = {"bounds": {}}

    def setup(ctx, party):
        def post(party_, iface, rec, sched):
            est = getattr(party_.inner, "max_rate_estimator", None)
            if est is not None and party_.inner.estimate_max_rate:
                b = getattr(est, "upper_bounds", None)
                if b is None:
                    b = getattr(est, "bounds", {})
                rec["est_bounds"] = dict(b)
        ctx.post_hooks.append(post)

    tr = driver.run_world(sc, observe=0, setup=setup)
    p = sc["party"]
    out = base_outcome(tr, extra_sig=[p["kind"], p.get("sort"), p.get("estimator"), p.get("uninterrupted"), p.get("continuous_inc")])
    ok = completion(tr, out, "C07", required=True)
    ids = [s["id"] for s in sc["network"]["stations"]]
    st = {s["id"]: s for s in sc["network"]["stations"]}
    phases = [s["phase"] for s in sc["network"]["stations"]]
    cons0 = cons_of(sc)
    cons = cons0
    vt, rt = sc["network"]["violation_tolerance"], sc["network"]["relative_tolerance"]
    nw = tr.sim.network
    out.probe("resumed", len(tr.resumes))
    if any(s["session_id"] in ids and s["session_id"] != s["station"] for s in sc["sessions"]):
        out.probe("crossed_session_ids")
    if not cons0:
        out.probe("constraint_free")
    if sc.get("knife_edge"):
        out.probe("knife_edge_world")
    if sc.get("sliver"):
        out.probe("sliver_world")
    if any(s["evse"]["type"] == "Finite" for s in sc["network"]["stations"]):
        out.probe("finite_rate_station")
    est_mode = p.get("estimator", "none")
    unint = p.get("uninterrupted", False)
    if p.get("max_recompute") != 1:
        out.probe("sorted_recompute_interval_not_1")
    for c in tr.calls:
        if not c.get("completed"):
            continue
        t = c["t"]
        sch = c["schedule"]
        out.probe("rr_call" if p["kind"] == "rr" else "greedy_call")
        if sorted(sch.keys()) != sorted(ids) or len({len(v) for v in sch.values()}) != 1 or any(len(v) < 1 for v in sch.values()):
            out.add("C07/schedule_shape", "t=%d keys %s lengths %s" % (t, sorted(sch.keys()), sorted({len(v) for v in sch.values()})))
            break
        vec = [sch[s][0] for s in ids]
        col = [[x] for x in vec]
        if any(0 < x < 0.01 for x in vec):
            out.probe("pilot_below_bisection_resolution")
            if sc.get("sliver") and max(vec) > 1:
                out.probe("sliver_pilot_next_to_large_pilot")
        cons = cons_of(sc, t)
        L_ = len(sch[ids[0]])
        if L_ > 1:
            # a schedule that holds pilots for several periods: every column has to be safe and the row as a whole must not
            # hand a session more than its remaining demand (in A*periods)
            out.probe("multi_period_schedule")
            truth_ = {x["station"]: x for x in truth_sessions(sc, tr, t)}
            for k_ in range(1, L_):
                colk = [[sch[s][k_]] for s in ids]
                mk, wk = phasor.margins(cons, phases, colk, vt, rt)
                if cons and mk < -1e-9 * max(1.0, cons[wk[0]][1]):
                    out.add("C07/infeasible_schedule", "t=%d column %d of schedule violates constraint %d by %.3e A" % (t, k_, wk[0], -mk))
                    break
                for s in ids:
                    if not in_allowable(st[s]["evse"], sch[s][k_]):
                        out.add("C07/pilot_not_allowable", "t=%d station %s column %d pilot %r" % (t, s, k_, sch[s][k_]))
                        break
            for s in ids:
                x = truth_.get(s)
                tot = sum(sch[s])
                if x is None:
                    if tot != 0:
                        out.add("C07/pilot_without_active_session", "t=%d station %s row %r but no active session" % (t, s, sch[s]))
                        break
                elif tot > x["rem_ap"] * (1 + 1e-9) + 1e-9 and x["remaining"] > 1e-3 + 1e-9:
                    out.add("C07/exceeds_remaining_demand", "t=%d station %s row %r sums to more than the remaining demand %r A*periods (session %s)"
                            % (t, s, sch[s], x["rem_ap"], x["session_id"]))
                    break
            if out.viol:
                break
        reconfigured = any(r["t"] <= t for r in sc.get("reconfig", ()))
        if reconfigured:
            out.probe("call_after_reconfig")
        m, where = phasor.margins(cons, phases, col, vt, rt)
        if cons and m < -1e-9 * max(1.0, cons[where[0]][1]):
            out.add("C07/infeasible_schedule", "t=%d schedule %s violates constraint %d by %.3e A (beyond tolerance)" % (t, vec, where[0], -m))
            break
        # the network object is the one at the END of the run: only comparable while its constraints are those of period t
        if cons == cons_of(sc, 10 ** 9) and not bool(nw.is_feasible(np.array(col, dtype=float))) \
                and (not cons or m > 1e-9 * max(1.0, cons[where[0]][1])):
            out.add("C07/network_rejects_schedule", "t=%d schedule %s" % (t, vec))
            break
        truth = {x["station"]: x for x in truth_sessions(sc, tr, t)}
        ke = sc.get("knife_edge")
        if ke and all(tg in truth and truth[tg]["rem_ap"] > truth[tg]["max_pilot"] for tg in ke["targets"]) and \
                sum(vec[ids.index(tg)] for tg in ke["targets"]) < ke["sum"] - 1e-6:
            out.probe("knife_edge_sum_rejected")
        binding = False
        for s in ids:
            v = vec[ids.index(s)]
            e = st[s]["evse"]
            if not in_allowable(e, v):
                out.add("C07/pilot_not_allowable", "t=%d station %s pilot %r not accepted by its EVSE %s" % (t, s, v, e))
                break
            x = truth.get(s)
            if x is None or x["remaining"] <= 1e-3 - 1e-9:
                if v != 0 and not (x is not None and abs(x["remaining"] - 1e-3) < 1e-9):
                    out.add("C07/pilot_without_active_session", "t=%d station %s pilot %r but no active session" % (t, s, v))
                    break
                continue
            if x["remaining"] <= x["min_pilot"] * x["voltage"] / (60.0 / sc["sim"]["period"]) / 1000.0:
                out.probe("removed_finished_session")   # below one period at the minimum pilot: documented preprocessing drops it
            if v > x["rem_ap"] * (1 + 1e-9) + 1e-9:
                out.add("C07/exceeds_remaining_demand", "t=%d station %s pilot %r > remaining demand %r A*periods (session %s)" % (t, s, v, x["rem_ap"], x["session_id"]))
                break
            if x["rem_ap"] < x["max_pilot"]:
                out.probe("nearly_finished_session")
            bound = min(x["max_pilot"], x["rem_ap"])
            if est_mode != "none" and "est_bounds" in c:
                eb = c["est_bounds"].get(x["session_id"])
                if eb is not None:
                    floor = x["min_pilot"] if unint else 0.0
                    lim = max(eb, floor)
                    if v > lim * (1 + 1e-9) + 1e-9:
                        out.add("C07/estimator_bound_exceeded", "t=%d station %s session %s pilot %r > estimator bound %r (uninterrupted minimum %r)"
                                % (t, s, x["session_id"], v, eb, floor))
                        break
                    if eb < bound:
                        out.probe("estimator_bound_binding")
                    bound = min(bound, lim)
            if unint and v > 0 and abs(v - x["min_pilot"]) < 1e-9 and x["min_pilot"] > 0:
                out.probe("uninterrupted_min_applied")
            if v < bound - 0.02 - 1e-9:
                binding = True
        if out.viol:
            break
        if binding and len(truth) >= 2 and cons:
            out.probe("binding_call")
            out.nontrivial = True
    out.probe("algorithm_retuned_mid_run", tr.fault_counts.get("algorithm_retuned", 0))
    nwarn = [msg for cat, msg in tr.warnings if "Invalid schedule provided" in msg]
    if nwarn:
        out.add("C07/infeasible_schedule_warning", nwarn[0][:200])
    if tr.exc is not None and isinstance(tr.exc, sut.InvalidRateError):
        pass  # already reported by completion()
    if ok:
        for sid, ev in tr.sim.ev_history.items():
            if ev.energy_delivered > ev.requested_energy * (1 + 1e-9) + 1e-9:
                out.add("C07/overdelivery", "session %s delivered %r > requested %r" % (sid, ev.energy_delivered, ev.requested_energy))
    return out
