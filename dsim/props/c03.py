"""C03 - physical bounds: 0 <= actual rate <= pilot, power <= max, charge monotone and <= capacity.

Layer (b): battery bench with an owned noise tape (S4). Layer (a): 0 <= rate <= pilot in whole simulations."""
from .. import sut, world, driver
from ..engine import Outcome
from ..rng import digest
from ..shrink import ops_candidates, world_candidates
from ..bench_battery import gen_bench, run_bench
from ..worldprop import base_outcome, completion

ID = "C03"
RUNS = {"quick": 80000, "thorough": 900000}
BUDGET = {"quick": 45, "thorough": 780}
CHUNK = 1000
DET_EVERY = 400
RULE = ("4 of 5 runs: battery bench (1-200 charge()/reset() calls on one battery: ideal / two-stage continuous / "
        "stepwise, noise 0 or sigma in [0.01,3] kW with tape PRNG/zeros/+-6 sigma/alternating, SoC from 0 to exactly full, "
        "pilots 0, 1e-9 .. 10x max); 1 of 5: whole simulations with noisy batteries; non-trivial = sequence crosses the "
        "transition SoC or reaches >= 99.9% SoC; distinct = distinct (battery class, calc, noise?, tape, crossing pattern)")
PROBES = ["crossed_transition", "reached_99_9", "noise_draw", "extreme_tape", "pilot_above_max", "tiny_pilot",
          "exactly_full_start", "world_runs", "stepwise_tail_noise", "long_period_call", "pilot_just_off_a_finite_level", "second_life", "refused_reset", "stochastic_network_world"]
FAULT_DIMENSION = "adversarial noise tape (the system's own randomness is the fault surface)"
REAL_VS_STUB = "real: Battery, Linear2StageBattery, EV, EVSE, Simulator; ours: numpy.random.normal tape"
ASSUMPTIONS = ["tolerances: 1e-9 relative + 1e-9 absolute on rate/power/charge comparisons",
               "pilots are non-negative (the property's scope)"]
P_WORLD = world.profile(second_life=0.25, periods=[1, 5, 5, 7.5, 15, 60, 120], near_level_pilots=0.3, noise=0.9, battery={"l2c": 3, "l2s": 2, "ideal": 1}, tapes_noise=["prng", "extreme", "alt"],
                        party={"scripted": 3, "uncontrolled": 3, "greedy": 1})


def candidates(sc):
    if "ops" in sc:
        return ops_candidates(sc, "ops")
    return world_candidates(sc)


P_STOCH = world.profile(net="stochastic", stations=(1, 4), periods=[1, 5, 5, 15, 60], noise=0.6, battery={"l2c": 3, "l2s": 2, "ideal": 1},
                        evse_kinds={"cont": 3, "finite": 2}, tapes_noise=["prng", "extreme", "alt"], party={"scripted": 2, "uncontrolled": 3, "greedy": 1},
                        stoch_early=0.4)


def gen(rs, tier):
    if rs % 5 == 0:
        # (one world in four on the contributed StochasticNetwork: vehicles wait and are swapped into freed spaces)
        return world.gen_world(rs, P_STOCH if (rs // 5) % 4 == 0 else P_WORLD)
    return gen_bench(rs, True, tier)


def check(sc):
    if "ops" not in sc:
        return check_world(sc)
    out = Outcome()
    b = sc["battery"]
    cap, mp, V = b["capacity"], b["max_power"], sc["voltage"]
    ts = b.get("transition_soc")
    eps = 1e-9
    crossed = [False]
    log = []

    def on_call(i, op, pre, post, rate, batt):
        if rate is None and op["op"] == "reset_refused":
            out.probe("refused_reset")
            if post[0] > cap * (1 + eps) + eps:
                out.add("C03/charge_above_capacity", "call %d: after a reset(%r x capacity) that %s the stored charge is %r, capacity %r"
                        % (i, op["frac"], "was refused with ValueError" if op.get("refused") else "was accepted", post[0], cap))
            return
        if rate is None:
            return
        pilot, period = op["pilot"], op["period"]
        log.append((i, repr(rate), repr(post[0])))
        if rate < -eps * max(1.0, pilot):
            out.add("C03/rate_negative", "call %d: charge(%r, %r, %r) returned %r (soc %.6f)" % (i, pilot, V, period, rate, pre[0] / cap))
        if rate > pilot * (1 + eps) + eps:
            out.add("C03/rate_above_pilot", "call %d: pilot %r returned rate %r (soc %.6f)" % (i, pilot, rate, pre[0] / cap))
        if post[1] > mp * (1 + eps) + eps:
            out.add("C03/power_above_max", "call %d: drawn power %r kW, max %r" % (i, post[1], mp))
        if post[0] < pre[0] - eps * max(1.0, cap):
            out.add("C03/charge_decreased", "call %d: stored charge %r -> %r" % (i, pre[0], post[0]))
        if post[0] > cap * (1 + eps) + eps:
            out.add("C03/charge_above_capacity", "call %d: stored charge %r, capacity %r" % (i, post[0], cap))
        e = rate * V / 1000.0 * (period / 60.0)
        if abs((post[0] - pre[0]) - e) > 1e-8 * max(1.0, cap, abs(e)):
            out.add("C03/rate_charge_inconsistent", "call %d: charge +%r but rate*V*dt = %r" % (i, post[0] - pre[0], e))
        if abs(post[1] - rate * V / 1000.0) > 1e-8 * max(1.0, mp):
            out.add("C03/rate_power_inconsistent", "call %d: power %r but rate*V = %r" % (i, post[1], rate * V / 1000.0))
        if ts is not None and pre[0] / cap < ts <= post[0] / cap:
            crossed[0] = True
        if pilot * V / 1000.0 > mp:
            out.probe("pilot_above_max")
        if 0 < pilot <= 1e-3:
            out.probe("tiny_pilot")
        if period > 60:
            out.probe("long_period_call")
        if b.get("calc") == "stepwise" and b.get("noise") and ts is not None and pre[0] / cap >= ts:
            out.probe("stepwise_tail_noise")
    try:
        draws = run_bench(sc, on_call)
    except Exception as e:
        from ..driver import classify_exception
        if classify_exception(e) == "harness":
            raise
        out.add("C03/exception:" + type(e).__name__, str(e)[:200])
        draws = 0
    full = bool(log) and float(log[-1][2]) >= 0.999 * cap
    out.probe("crossed_transition", 1 if crossed[0] else 0)
    out.probe("reached_99_9", 1 if full else 0)
    out.probe("noise_draw", draws)
    out.probe("extreme_tape", 1 if draws and sc["tapes"]["noise"] in ("extreme", "alt") else 0)
    out.probe("exactly_full_start", 1 if b["init"] == cap else 0)
    out.nontrivial = crossed[0] or full
    out.sig = digest((b["type"], b.get("calc"), bool(b.get("noise")), sc["tapes"]["noise"], crossed[0], full, len(sc["ops"]),
                      round(b.get("transition_soc") or 0, 1), sc["voltage"]))
    out.digest = digest(log)
    out.calls = len(sc["ops"])
    return out


def check_world(sc):
    tr = driver.run_world(sc, observe=0)
    out = base_outcome(tr)
    completion(tr, out, "C03", required=False)
    out.probe("world_runs")
    if sc["network"]["kind"] == "stochastic":
        out.probe("stochastic_network_world")
    out.probe("second_life", tr.fault_counts.get("second_life", 0))
    hit = False
    for p in tr.periods:
        for i, (r, pl) in enumerate(zip(p["rates"], p["pilots"])):
            if r < -1e-9 or r > pl * (1 + 1e-9) + 1e-9:
                out.add("C03/sim_rate_bounds", "t=%d station %d recorded rate %r with recorded pilot %r" % (p["t"], i, r, pl))
                return out
            if 0 < r < pl:
                hit = True
            if pl and abs(pl - round(pl, 1)) > 1e-7 and abs(pl - round(pl, 1)) < 1e-3:
                out.probe("pilot_just_off_a_finite_level")
    out.probe("noise_draw", tr.noise_draws)
    out.nontrivial = hit and tr.noise_draws > 0
    return out
