"""C03 - physical bounds: 0 <= actual rate <= pilot, power <= max, charge monotone and <= capacity.

Layer (b): battery bench with an owned noise tape (S4). Layer (a): 0 <= rate <= pilot in whole simulations."""
from .. import sut, world, driver
from ..engine import Outcome
from ..rng import digest, sub
from ..shrink import ops_candidates, world_candidates
from ..bench_battery import gen_bench, run_bench
from ..worldprop import base_outcome, completion

ID = "C03"
RUNS = {"quick": 80000, "thorough": 900000}
BUDGET = {"quick": 45, "thorough": 780}
CHUNK = 1000
DET_EVERY = 400
RULE = ("4 of 5 runs: battery bench (1-200 charge()/reset() calls on one battery: ideal / two-stage continuous / "
        "stepwise, noise 0 or sigma in [0.01,3] kW with tape PRNG/zeros/+-6 sigma/alternating, SoC from 0 to exactly full, "
        "pilots 0, 1e-9 .. 10x max); 1 of 5: whole simulations with noisy batteries; non-trivial = sequence crosses the "
        "transition SoC or reaches >= 99.9% SoC; distinct = distinct (battery class, calc, noise?, tape, crossing pattern)")
PROBES = ["calculation_method_switched", "charged_at_another_voltage", "crossed_transition", "reached_99_9", "noise_draw", "extreme_tape", "pilot_above_max", "tiny_pilot",
          "exactly_full_start", "world_runs", "stepwise_tail_noise", "long_period_call", "pilot_just_off_a_finite_level", "second_life", "refused_reset", "stochastic_network_world",
          "control_loop_runs", "short_form_unplug_of_attached_vehicle", "network_json_roundtrip", "network_deepcopy"]
FAULT_DIMENSION = "adversarial noise tape (the system's own randomness is the fault surface)"
REAL_VS_STUB = "real: Battery, Linear2StageBattery, EV, EVSE, Simulator; ours: numpy.random.normal tape"
ASSUMPTIONS = ["tolerances: 1e-9 relative + 1e-9 absolute on rate/power/charge comparisons",
               "pilots are non-negative (the property's scope)"]
P_WORLD = world.profile(second_life=0.25, periods=[1, 5, 5, 7.5, 15, 60, 120], near_level_pilots=0.3, noise=0.9, battery={"l2c": 3, "l2s": 2, "ideal": 1}, tapes_noise=["prng", "extreme", "alt"],
                        party={"scripted": 3, "uncontrolled": 3, "greedy": 1})


def candidates(sc):
    if sc.get("loop"):
        return loop_candidates(sc)
    if "ops" in sc:
        return ops_candidates(sc, "ops")
    return world_candidates(sc)


P_STOCH = world.profile(net="stochastic", stations=(1, 4), periods=[1, 5, 5, 15, 60], noise=0.6, battery={"l2c": 3, "l2s": 2, "ideal": 1},
                        evse_kinds={"cont": 3, "finite": 2}, tapes_noise=["prng", "extreme", "alt"], party={"scripted": 2, "uncontrolled": 3, "greedy": 1},
                        stoch_early=0.4)


def loop_candidates(sc):
    import copy
    for i in range(len(sc["ops"])):
        c = copy.deepcopy(sc)
        del c["ops"][i]
        yield c


def gen_loop(rs):
    """A caller's own control loop over the network's public API (no Simulator): vehicles are attached and detached through every
    documented form of plugin / unplug, pilots go out through update_pilots, the network may be saved and reloaded in between."""
    from ..bench_battery import gen_bench as gb
    r = sub(rs, "c03loop")
    n = r.randint(1, 5)
    stations = [{"id": r.choice(["S%d", "CA-%d", "%d"]) % (300 + i), "max_rate": r.choice([16, 32, 32, 80]), "voltage": r.choice([120, 208, 208, 240]),
                 "kind": r.choice(["cont", "cont", "deadband"])} for i in range(n)]
    if len({s_["id"] for s_ in stations}) < n:
        for i, s_ in enumerate(stations):
            s_["id"] = "S%d" % i
    period = r.choice([1, 5, 5, 15, 60])
    ops, k = [], 0
    for _ in range(r.randint(4, 40)):
        u = r.random()
        st = r.randrange(n)
        if u < 0.25:
            b = gb(rs * 131 + k, True, "quick")["battery"]
            ops.append({"op": "plugin", "station": st, "session": "sess%d" % k,
                        "battery": b, "requested": round(r.uniform(0.5, 60), 3), "legacy_station_arg": r.random() < 0.15})
            k += 1
        elif u < 0.45:
            ops.append({"op": r.choice(["unplug_short", "unplug_short", "unplug_id", "unplug_wrong_id"]), "station": st})
        elif u < 0.5:
            ops.append({"op": r.choice(["roundtrip", "deepcopy"])})
        else:
            ops.append({"op": "step", "pilots": [r.choice([0, 0, r.uniform(6, s_["max_rate"]), s_["max_rate"], 6, 8, 16]) for s_ in stations]})
    return {"seed": rs, "loop": True, "stations": stations, "period": period, "ops": ops, "tapes": {"noise": r.choice(["prng", "extreme", "alt"])}}


def check_loop(sc):
    import copy
    import warnings
    from ..bench_battery import Tape
    from ..build import build_battery
    np = sut.np
    out = Outcome()
    out.probe("control_loop_runs")
    tape = Tape(sc)
    orig = np.random.normal
    np.random.normal = tape
    log = []
    try:
        with warnings.catch_warnings():
            warnings.simplefilter("ignore")
            nw = sut.ChargingNetwork()
            for s_ in sc["stations"]:
                cls = sut.DeadbandEVSE if s_["kind"] == "deadband" else sut.EVSE
                nw.register_evse(cls(s_["id"], max_rate=s_["max_rate"]), s_["voltage"], 0)
            sent = [0.0] * len(sc["stations"])
            t = 0

            def judge(i_op, what):
                rates = nw.current_charging_rates
                for j, s_ in enumerate(sc["stations"]):
                    rt = float(rates[j])
                    if rt < -1e-9 or rt > sent[j] * (1 + 1e-9) + 1e-9:
                        out.add("C03/network_rate_bounds", "op %d (%s): station %s reports a charging current of %r A, last pilot sent %r A (vehicle attached: %r)"
                                % (i_op, what, s_["id"], rt, sent[j], nw.get_ev(s_["id"]) is not None))
                        return False
                    if 0 < rt < sent[j]:
                        out.nontrivial = True
                log.append([round(float(x), 9) for x in rates])
                return True
            for i_op, op in enumerate(sc["ops"]):
                sid = sc["stations"][op["station"]]["id"] if "station" in op else None
                kind = op["op"]
                if kind == "plugin":
                    if nw.get_ev(sid) is not None:
                        continue
                    batt = build_battery(op["battery"])
                    room = float(batt._capacity - batt._current_charge)
                    ev = sut.EV(t, t + 1000, min(op["requested"], max(room, 0.0)), sid, op["session"], batt)
                    if op["legacy_station_arg"]:
                        nw.plugin(ev, sid)
                    else:
                        nw.plugin(ev)
                    sent[op["station"]] = 0.0
                    out.probe("loop_plugin")
                elif kind.startswith("unplug"):
                    cur = nw.get_ev(sid)
                    if kind == "unplug_short":
                        nw.unplug(sid)
                        if cur is not None:
                            out.probe("short_form_unplug_of_attached_vehicle")
                        sent[op["station"]] = 0.0
                    elif kind == "unplug_id":
                        if cur is not None and cur.session_id is not None:
                            nw.unplug(sid, cur.session_id)
                            sent[op["station"]] = 0.0
                        elif cur is not None:
                            nw.unplug(sid, None)
                            out.probe("session_without_id_unplugged")
                            sent[op["station"]] = 0.0
                        else:
                            nw.unplug(sid, "nobody")
                    else:
                        nw.unplug(sid, "not-the-session-here")          # refused with a warning: nothing changes
                        out.probe("unplug_with_wrong_session_refused")
                    if kind != "unplug_wrong_id" and nw.get_ev(sid) is not None:
                        out.add("C03/unplug_ignored", "op %d: %s left a vehicle attached at %s" % (i_op, kind, sid))
                        break
                elif kind == "roundtrip":
                    nw = sut.ChargingNetwork.from_json(nw.to_json())
                    out.probe("network_json_roundtrip")
                elif kind == "deepcopy":
                    nw = copy.deepcopy(nw)
                    out.probe("network_deepcopy")
                else:
                    m = np.zeros((len(sc["stations"]), t + 1))
                    for j, p_ in enumerate(op["pilots"]):
                        m[j, t] = p_
                    nw.update_pilots(m, t, sc["period"])
                    sent = [float(p_) for p_ in op["pilots"]]
                    t += 1
                if not judge(i_op, kind):
                    break
    except Exception as x:
        from ..driver import classify_exception
        if classify_exception(x) == "harness":
            raise
        out.add("C03/exception:" + type(x).__name__, str(x)[:200])
    finally:
        np.random.normal = orig
    out.probe("noise_draw", tape.n)
    out.sig = digest(("loop", len(sc["stations"]), sorted(out.probes)))
    out.digest = digest(log)
    out.calls = len(log)
    return out


def gen(rs, tier):
    if rs % 5 == 0 and (rs // 5) % 4 == 1:
        return gen_loop(rs)
    if rs % 5 == 0:
        # (one world in four on the contributed StochasticNetwork: vehicles wait and are swapped into freed spaces)
        return world.gen_world(rs, P_STOCH if (rs // 5) % 4 == 0 else P_WORLD)
    return gen_bench(rs, True, tier)


def check(sc):
    if sc.get("loop"):
        return check_loop(sc)
    if "ops" not in sc:
        return check_world(sc)
    out = Outcome()
    b = sc["battery"]
    cap, mp, V = b["capacity"], b["max_power"], sc["voltage"]
    ts = b.get("transition_soc")
    eps = 1e-9
    crossed = [False]
    log = []

    def on_call(i, op, pre, post, rate, batt):
        if rate is None and op["op"] == "reset_refused":
            out.probe("refused_reset")
            if post[0] > cap * (1 + eps) + eps:
                out.add("C03/charge_above_capacity", "call %d: after a reset(%r x capacity) that %s the stored charge is %r, capacity %r"
                        % (i, op["frac"], "was refused with ValueError" if op.get("refused") else "was accepted", post[0], cap))
            return
        if rate is None:
            if op["op"] == "switch_calc":
                out.probe("calculation_method_switched")
            return
        nonlocal V
        V = op.get("voltage", sc["voltage"])
        if "voltage" in op:
            out.probe("charged_at_another_voltage")
        pilot, period = op["pilot"], op["period"]
        log.append((i, repr(rate), repr(post[0])))
        if rate < -eps * max(1.0, pilot):
            out.add("C03/rate_negative", "call %d: charge(%r, %r, %r) returned %r (soc %.6f)" % (i, pilot, V, period, rate, pre[0] / cap))
        if rate > pilot * (1 + eps) + eps:
            out.add("C03/rate_above_pilot", "call %d: pilot %r returned rate %r (soc %.6f)" % (i, pilot, rate, pre[0] / cap))
        if post[1] > mp * (1 + eps) + eps:
            out.add("C03/power_above_max", "call %d: drawn power %r kW, max %r" % (i, post[1], mp))
        if post[0] < pre[0] - eps * max(1.0, cap):
            out.add("C03/charge_decreased", "call %d: stored charge %r -> %r" % (i, pre[0], post[0]))
        if post[0] > cap * (1 + eps) + eps:
            out.add("C03/charge_above_capacity", "call %d: stored charge %r, capacity %r" % (i, post[0], cap))
        e = rate * V / 1000.0 * (period / 60.0)
        if abs((post[0] - pre[0]) - e) > 1e-8 * max(1.0, cap, abs(e)):
            out.add("C03/rate_charge_inconsistent", "call %d: charge +%r but rate*V*dt = %r" % (i, post[0] - pre[0], e))
        if abs(post[1] - rate * V / 1000.0) > 1e-8 * max(1.0, mp):
            out.add("C03/rate_power_inconsistent", "call %d: power %r but rate*V = %r" % (i, post[1], rate * V / 1000.0))
        if ts is not None and pre[0] / cap < ts <= post[0] / cap:
            crossed[0] = True
        if pilot * V / 1000.0 > mp:
            out.probe("pilot_above_max")
        if 0 < pilot <= 1e-3:
            out.probe("tiny_pilot")
        if period > 60:
            out.probe("long_period_call")
        if b.get("calc") == "stepwise" and b.get("noise") and ts is not None and pre[0] / cap >= ts:
            out.probe("stepwise_tail_noise")
    try:
        draws = run_bench(sc, on_call)
    except Exception as e:
        from ..driver import classify_exception
        if classify_exception(e) == "harness":
            raise
        out.add("C03/exception:" + type(e).__name__, str(e)[:200])
        draws = 0
    full = bool(log) and float(log[-1][2]) >= 0.999 * cap
    out.probe("crossed_transition", 1 if crossed[0] else 0)
    out.probe("reached_99_9", 1 if full else 0)
    out.probe("noise_draw", draws)
    out.probe("extreme_tape", 1 if draws and sc["tapes"]["noise"] in ("extreme", "alt") else 0)
    out.probe("exactly_full_start", 1 if b["init"] == cap else 0)
    out.nontrivial = crossed[0] or full
    out.sig = digest((b["type"], b.get("calc"), bool(b.get("noise")), sc["tapes"]["noise"], crossed[0], full, len(sc["ops"]),
                      round(b.get("transition_soc") or 0, 1), sc["voltage"]))
    out.digest = digest(log)
    out.calls = len(sc["ops"])
    return out


def check_world(sc):
    tr = driver.run_world(sc, observe=0)
    out = base_outcome(tr)
    completion(tr, out, "C03", required=False)
    out.probe("world_runs")
    if sc["network"]["kind"] == "stochastic":
        out.probe("stochastic_network_world")
    out.probe("second_life", tr.fault_counts.get("second_life", 0))
    hit = False
    for p in tr.periods:
        for i, (r, pl) in enumerate(zip(p["rates"], p["pilots"])):
            if r < -1e-9 or r > pl * (1 + 1e-9) + 1e-9:
                out.add("C03/sim_rate_bounds", "t=%d station %d recorded rate %r with recorded pilot %r" % (p["t"], i, r, pl))
                return out
            if 0 < r < pl:
                hit = True
            if pl and abs(pl - round(pl, 1)) > 1e-7 and abs(pl - round(pl, 1)) < 1e-3:
                out.probe("pilot_just_off_a_finite_level")
    out.probe("noise_draw", tr.noise_draws)
    out.nontrivial = hit and tr.noise_draws > 0
    return out
