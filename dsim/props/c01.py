"""C01 - every session is plugged in and unplugged exactly once; run() terminates.

Refinement of the real Simulator's event handling against a tiny reference (sorted pending list + station map),
over generated event interleavings (back-to-back reuse, pile-ups, recompute-only periods) with crash+rerun faults.
"""
from .. import world, driver
from ..worldprop import base_outcome, completion, REAL_VS_STUB  # noqa

ID = "C01"
RUNS = {"quick": 14400, "thorough": 250000}
BUDGET = {"quick": 45, "thorough": 780}
RULE = ("worlds from dsim.world (1-8 stations, chains of sessions per station with back-to-back reuse and "
        "shared 'hot' timestamps, extra recompute events, all parties); non-trivial = run with >=1 back-to-back "
        "station reuse or >=1 period with >=3 events; distinct = distinct per-period history signature "
        "<event kinds, invoked?, fault, #connected, #charging>")
PROBES = ["deepcopy_branch_run", "can_receive_current_checked", "back_to_back", "pileup3", "recompute_only_period", "resumed", "stay1", "idle_prefix", "crash_last_period",
          "constraint_free_sorted", "custom_event_in_run", "resume_json", "stochastic_network_world", "stochastic_json_resume", "second_life", "duplicate_session_id_world", "placeholder_station_labels"]
FAULT_DIMENSION = "scheduler crash at arbitrary calls (incl. last period), resumed by rerun or via a JSON save/load of the simulator"
ASSUMPTIONS = ["sessions of one station do not overlap (generator guarantees it)",
               "plug-in event timestamp == ev.arrival",
               "tie order inside one (timestamp, precedence) class is not constrained"]
PREC = {"Unplug": 0, "Plugin": 1, "Recompute": 2, "Event": 3}

PROFILE = world.profile(zero_demand=0.05, second_life=0.15, stations=(1, 8), faults={"crash": 0.5}, resume_modes=["rerun", "rerun", "json_str", "json_file", "deepcopy_branch", "json_legacy_unplug"], custom_events=0.2,
                        party={"scripted": 4, "uncontrolled": 2, "greedy": 2, "rr": 1})


P_STOCH = world.profile(zero_demand=0.1, net="stochastic", stations=(1, 4), faults={"crash": 0.8}, resume_modes=["rerun", "json_str", "json_file"],
                        party={"scripted": 2, "uncontrolled": 3, "greedy": 2}, evse_kinds={"cont": 3, "finite": 2}, stoch_early=0.3)


def gen(rs, tier):
    if rs % 8 == 0:
        # a ChargingNetwork subclass (contrib StochasticNetwork): event-level clauses only (who sits where is C19's business)
        sc = world.gen_world(rs, P_STOCH)
        rp = world.sub(rs, "placeholder")
        if sc["party"]["kind"] != "scripted" and rp.random() < 0.5:
            # sessions labelled the way the library's own generator labels them for this network: with a placeholder space
            # ('station_<row>') that is no registered station - the network assigns the real space at plug-in time
            for i, s_ in enumerate(sc["sessions"]):
                s_["station"] = "station_%d" % i
            sc["placeholder_stations"] = True
        return sc
    P = PROFILE
    if tier == "thorough" and rs % 10 == 0:
        P = dict(P, stations=(4, 12), horizon=(20, 120), sessions_cap=30)
    sc = world.gen_world(rs, P)
    r = world.sub(rs, "dupid")
    if r.random() < 0.12:
        # two sessions on DIFFERENT stations that overlap in time carry the same session id (ids taken from a vehicle tag, two
        # data pulls merged ...): plug / unplug are still per station
        pairs = [(a, b) for a in sc["sessions"] for b in sc["sessions"]
                 if a["station"] != b["station"] and a["arrival"] < b["arrival"] < a["departure"]]
        if pairs:
            a, b = r.choice(pairs)
            b["session_id"] = a["session_id"]
            sc["dup_session_id"] = a["session_id"]
            sc["faults"] = [f for f in sc["faults"] if f.get("resume", "rerun") == "rerun"]
            sc.pop("second_life", None)
    return sc


def check(sc):
    tr = driver.run_world(sc, observe=1)
    out = base_outcome(tr)
    ok = completion(tr, out, "C01", required=True)
    ev = world.event_times(sc)
    last_t = world.last_event_time(sc)
    sim = tr.sim
    sess = {s["session_id"]: s for s in sc["sessions"]}

    # probes / non-triviality
    by_station = {}
    for s in sc["sessions"]:
        by_station.setdefault(s["station"], []).append(s)
    b2b = 0
    for lst in by_station.values():
        deps = {s["departure"] for s in lst}
        b2b += sum(1 for s in lst if s["arrival"] in deps)
    pile = sum(1 for t, l in ev.items() if len(l) >= 3)
    out.probe("back_to_back", b2b)
    out.probe("pileup3", pile)
    out.probe("recompute_only_period", sum(1 for t, l in ev.items() if all(k == "Recompute" for k, _ in l)))
    out.probe("second_life", tr.fault_counts.get("second_life", 0))
    out.probe("duplicate_session_id_world", 1 if sc.get("dup_session_id") else 0)
    out.probe("resumed", len(tr.resumes))
    out.probe("resume_json", sum(1 for r in tr.resumes if r["mode"] != "rerun"))
    out.probe("custom_event_in_run", sum(1 for e in sc["extra_events"] if e.get("type") == "Event"))
    out.probe("stay1", sum(1 for s in sc["sessions"] if s["departure"] - s["arrival"] == 1))
    out.probe("idle_prefix", 1 if min(ev) > 0 else 0)
    out.probe("crash_last_period", sum(1 for r in tr.resumes if r["queue_empty"]))
    out.probe("constraint_free_sorted", 1 if (not sc["network"]["constraints"] and sc["party"]["kind"] in ("greedy", "rr")) else 0)
    out.nontrivial = b2b > 0 or pile > 0
    stoch = sc["network"]["kind"] == "stochastic"
    if stoch:
        out.probe("stochastic_network_world")
        if sc.get("placeholder_stations"):
            out.probe("placeholder_station_labels")
        out.probe("stochastic_json_resume", sum(1 for r in tr.resumes if r["mode"] != "rerun"))
    if not ok:
        return out

    # 1/6. termination state
    if not sim.event_queue.empty():
        out.add("C01/queue_not_empty", len(sim.event_queue))
    if sim.iteration != last_t + 1:
        out.add("C01/end_iteration", "iteration=%d expected %d" % (sim.iteration, last_t + 1))
    for sid in sim.network.station_ids:
        if sim.network.get_ev(sid) is not None:
            out.add("C01/station_not_vacated", sid)
            break
    # 2. event history order
    hist4 = [(e.timestamp, e.event_type or "Event", getattr(getattr(e, "ev", None), "session_id", None),
              getattr(getattr(e, "ev", None), "station_id", None)) for e in sim.event_history]
    hist = [h[:3] for h in hist4]
    keys = [(ts, PREC.get(k, 99)) for ts, k, _ in hist]
    if keys != sorted(keys):
        i = next(i for i in range(1, len(keys)) if keys[i] < keys[i - 1])
        out.add("C01/history_order", "events %s then %s" % (hist[i - 1], hist[i]))
    want = sorted((t, k, s) for t, l in ev.items() for k, s in l)
    if sorted(hist, key=lambda x: (x[0], x[1], str(x[2]))) != sorted(want, key=lambda x: (x[0], x[1], str(x[2]))):
        out.add("C01/history_multiset", "history %s != scenario events %s" % (hist[:12], want[:12]))
    # 3. exactly one plugin / unplug per session at the right time
    cnt = {}
    for ts, k, s, st_ in hist4:
        if k in ("Plugin", "Unplug"):
            cnt.setdefault((s, None if stoch else st_, k), []).append(ts)
    for s in sc["sessions"]:
        sid, key_st = s["session_id"], (None if stoch else s["station"])
        if cnt.get((sid, key_st, "Plugin")) != [s["arrival"]]:
            out.add("C01/plugin_count", "%s@%s plugged at %s, arrival %d" % (sid, s["station"], cnt.get((sid, key_st, "Plugin")), s["arrival"]))
        if cnt.get((sid, key_st, "Unplug")) != [s["departure"]]:
            out.add("C01/unplug_count", "%s@%s unplugged at %s, departure %d" % (sid, s["station"], cnt.get((sid, key_st, "Unplug")), s["departure"]))
    # 4. occupancy at the end of every period
    if len(tr.periods) != last_t + 1 or [p["t"] for p in tr.periods] != list(range(last_t + 1)):
        out.add("C01/periods", "periods executed %s expected 0..%d" % ([p["t"] for p in tr.periods][:20], last_t))
    for p in tr.periods:
        t = p["t"]
        for st, v in ({} if stoch else p["st"]).items():
            exp = None
            for s in by_station.get(st, []):
                if s["arrival"] <= t < s["departure"]:
                    exp = s["session_id"]
            if v[0] != exp:
                out.add("C01/occupancy", "t=%d station %s holds %s expected %s" % (t, st, v[0], exp))
                break
        # 5b. a connected EV *can* receive current: ideal battery with room left after the period + positive pilot => positive rate
        if not stoch and p["rates"] is not None and p["pilots"] is not None:
            for i, st in enumerate(p["st"].keys()):
                sid_, _, _, chg = p["st"][st]
                if sid_ is None or p["pilots"][i] <= 1e-6:
                    continue
                m_ = next((x for x in by_station.get(st, []) if x["session_id"] == sid_ and x["arrival"] <= t < x["departure"]), None)
                if m_ is None or m_["battery"]["type"] != "Battery" or m_["battery"]["max_power"] <= 0:
                    continue
                if chg < m_["battery"]["capacity"] * (1 - 1e-9) - 1e-9:
                    out.probe("can_receive_current_checked")
                    if not p["rates"][i] > 0:
                        out.add("C01/connected_not_charging", "t=%d station %s session %s: pilot %r A, ideal battery at %r of %r kWh, recorded rate %r"
                                % (t, st, sid_, p["pilots"][i], chg, m_["battery"]["capacity"], p["rates"][i]))
                        break
        # 5. rate only where connected
        ids = list(p["st"].keys())
        if p["rates"] is not None:
            for i, st in enumerate(ids):
                if p["rates"][i] != 0 and p["st"][st][0] is None:
                    out.add("C01/rate_without_ev", "t=%d station %s rate %r" % (t, st, p["rates"][i]))
    # what-if branches: a deep copy of the interrupted simulator, run to completion on its own after the original finished.
    # It is a simulation of the same sessions, so the same clauses hold for it - and running it must not touch the original
    for b_ in getattr(tr, "branches", []):
        out.probe("deepcopy_branch_run")
        if "exc" not in b_:
            continue
        if b_["exc"] is not None:
            out.add("C01/branch_exception", "deep copy taken at period %d: run() raised %s: %s" % (b_["t"], type(b_["exc"]).__name__, str(b_["exc"])[:120]))
            break
        if b_["orig_hist_after"] != b_["orig_hist_before"]:
            out.add("C01/branch_touched_original", "running a deep copy (taken at period %d) changed the original's event history: %d -> %d entries"
                    % (b_["t"], b_["orig_hist_before"], b_["orig_hist_after"]))
            break
        bs = b_["sim"]
        bh = [(e.timestamp, e.event_type or "Event", getattr(getattr(e, "ev", None), "session_id", None)) for e in bs.event_history]
        if sorted(bh, key=lambda x: (x[0], x[1], str(x[2]))) != sorted(want, key=lambda x: (x[0], x[1], str(x[2]))):
            out.add("C01/branch_history", "deep copy taken at period %d and run to the end: its event history %s differs from the scenario's events %s"
                    % (b_["t"], bh[:10], want[:10]))
            break
        if not bs.event_queue.empty() or bs.iteration != last_t + 1 or any(bs.network.get_ev(x) is not None for x in bs.network.station_ids):
            out.add("C01/branch_end_state", "deep copy taken at period %d: queue empty %s, iteration %d (expected %d)"
                    % (b_["t"], bs.event_queue.empty(), bs.iteration, last_t + 1))
            break
    # what the party saw agrees with the model
    for c in tr.calls:
        if not c.get("completed") or "sessions" not in c:
            continue
        t = c["t"]
        for s in c["sessions"]:
            m = next((x for x in sc["sessions"] if x["session_id"] == s["session_id"] and (stoch or x["station"] == s["station_id"])), None)
            if m is None or not (m["arrival"] <= t < m["departure"]) or (s["station_id"] != m["station"] and not stoch):
                out.add("C01/party_saw_unconnected", "t=%d saw %s" % (t, s))
    # uncontrolled + unfinished demand: first connected period charges (connected EV *can* receive current)
    if sc["party"]["kind"] == "uncontrolled" and not sc["faults"] and not stoch:
        ids = [s["id"] for s in sc["network"]["stations"]]
        for s in sc["sessions"]:
            a = s["arrival"]
            if a < len(tr.periods):
                p = tr.periods[a]
                r = p["rates"][list(p["st"].keys()).index(s["station"])]
                b = s["battery"]
                if r <= 0 and b["capacity"] - b["init"] > 1e-6 and s["energy"] > 1e-3 and not b.get("noise"):
                    out.add("C01/connected_not_charging", "session %s rate %r in arrival period %d" % (s["session_id"], r, a))
    return out
