"""C19 - stochastic space assignment never loses, duplicates or starves a session (random.choice is ours: seam S4)."""
import copy
import random as _random
from .. import sut, world, driver
from ..worldprop import base_outcome, completion, REAL_VS_STUB  # noqa

ID = "C19"
RUNS = {"quick": 12000, "thorough": 180000}
BUDGET = {"quick": 45, "thorough": 780}
RULE = ("StochasticNetwork worlds: 1-4 stations, more simultaneous sessions than stations arriving in bursts, departures "
        "before admission, early_departure on/off with small demands, choice tape PRNG/first/last, uncontrolled/greedy/"
        "scripted parties; a FIFO waiting-room model is stepped from the scenario and compared at every end-of-period tap; "
        "non-trivial = >=1 session waited and was later admitted and >=1 left while waiting; distinct = history signature + "
        "waiting pattern")
PROBES = ["recorded_arrivals_in_another_order_than_plugins", "content_drivers_world", "content_driver_connected", "waited_then_admitted", "left_while_waiting", "early_unplug", "two_or_more_waiting_at_admission", "direct_plugin",
          "satisfied_residual_evicted", "same_seed_rerun", "choice_first", "choice_last", "resumed", "generated_multi_day_queue",
          "queried_between_registrations", "hashseed_fresh_interpreter"]
FAULT_DIMENSION = "adversarial random.choice tape (always first / always last free station); crash + rerun"
ASSUMPTIONS = ["the model does not predict *which* free station is chosen, only that it was free",
               "early departure: a connected EV is 'satisfied' when requested - delivered <= 1e-3 kWh (the library's fully_charged)"]
PROFILE = world.profile(zero_demand=0.12, net="stochastic", stations=(1, 4), horizon=(4, 30), hot=0.5, demand=(0.01, 1.2),
                        party={"uncontrolled": 3, "greedy": 2, "scripted": 1}, evse_kinds={"cont": 3, "finite": 2},
                        faults={"crash": 0.2}, resume_modes=["rerun"], noise=0.1, sessions_cap=15,
                        constraints={"none": 1, "single": 2, "three": 1})


def gen(rs, tier):
    sc = world.gen_world(rs, PROFILE)
    sc["party"]["subset_mode"] = "all"
    r = world.sub(rs, "c19x")
    if len(sc["network"]["stations"]) >= 2 and r.random() < 0.3:
        sc["network"]["query_after_first_registrations"] = r.randrange(len(sc["network"]["stations"]) - 1)
    rq = world.sub(rs, "c19_records")
    if rq.random() < 0.25:
        # vehicles whose own record gives an arrival before the period of their plug-in event (on site before the window opened,
        # plug-in queued late), in another order than the plug-in events: first come = first to ask for a space
        for s_ in sc["sessions"]:
            if rq.random() < 0.7:
                s_["ev_arrival"] = s_["arrival"] - rq.randint(1, 15)
        sc["recorded_arrival_before_plugin"] = True
    if sc["network"].get("early_departure") and rq.random() < 0.15:
        # drivers who are content with part of their request (a user subclass of EV overriding fully_charged): a content driver's
        # space goes to whoever waits
        for s_ in sc["sessions"]:
            if rq.random() < 0.6:
                s_["content_at"] = rq.choice([0.5, 0.25, 0.75])
        sc["content_drivers"] = True
    if rs % 10 == 3:
        # sessions come out of the library's own generator (seeded sample override) for a queue covering several days
        sc["sim"]["period"] = 60
        days = [r.randint(1, 4) for _ in range(r.randint(2, 3))]
        rows = [[round(r.uniform(0, 23.9), 3), round(r.choice([r.uniform(1, 6), r.uniform(8, 30)]), 3), round(r.uniform(1, 30), 3)]
                for _ in range(sum(days))]
        sc["generated"] = {"days": days, "rows": rows, "voltage": sc["network"]["stations"][0]["voltage"]}
        sc["sessions"] = []
        sc["extra_events"] = []
        sc["faults"] = []
    return sc


def materialise(sc, out):
    """Run StochasticEvents.generate_events (sample() overridden by the scenario's rows) and turn its EVs into sessions."""
    from acnportal.acnsim.events import stochastic_events as se
    g = sc["generated"]
    rows = [list(x) for x in g["rows"]]
    state = {"k": 0}

    class Seeded(se.StochasticEvents):
        def sample(self_, n):
            a = sut.np.array(rows[state["k"]: state["k"] + n], dtype=float)
            state["k"] += n
            return a
    q = Seeded().generate_events(g["days"], sc["sim"]["period"], g["voltage"], 7.0)
    evs = [e.ev for _, e in q.queue]
    ids = [e.session_id for e in evs]
    out.probe("generated_multi_day_queue")
    if len(set(ids)) != len(ids):
        dup = sorted({i for i in ids if ids.count(i) > 1})
        out.add("C19/generated_sessions_share_ids", "generate_events(%s days) produced %d sessions but only %d distinct ids (e.g. %s): the "
                "network and the session history are keyed by id, so one of each pair is lost" % (g["days"], len(ids), len(set(ids)), dup[:3]))
        return None
    st0 = sc["network"]["stations"][0]["id"]
    return [{"session_id": e.session_id, "station": st0, "arrival": int(e.arrival), "departure": int(e.departure),
             "energy": float(e.requested_energy), "battery": {"type": "Battery", "capacity": float(e._battery._capacity),
                                                               "init": float(e._battery._current_charge), "max_power": float(e._battery.max_charging_power)}}
            for e in sorted(evs, key=lambda e: (e.arrival, e.session_id))]


def check(sc):
    if sc.get("generated") and not sc["sessions"]:
        from ..engine import Outcome
        pre = Outcome()
        sess_ = materialise(sc, pre)
        if sess_ is None or not sess_:
            pre.digest = "generated"
            return pre
        sc = dict(sc, sessions=[s_ for s_ in sess_ if s_["departure"] > s_["arrival"]])
        if not sc["sessions"]:
            return pre
    tr = driver.run_world(sc, observe=0)
    ok_required = True
    sess = {s["session_id"]: s for s in sc["sessions"]}
    ids = [s["id"] for s in sc["network"]["stations"]]
    early = sc["network"].get("early_departure", False)
    # ---------------- model: step through periods using the observed taps for the free choice only
    waiting = []          # FIFO of session ids
    at = {}               # station -> session
    where = {}            # session -> station
    never = swaps = early_un = 0
    ever_connected = set()
    waited = set()
    admitted_after_wait = set()
    left_waiting = set()
    out = base_outcome(tr, extra_sig=[sc["tapes"]["choice"], early])
    ok = completion(tr, out, "C19", required=True)
    ev = world.event_times(sc)
    order_in_period = {}
    for e in tr.sim.event_history:
        order_in_period.setdefault(e.timestamp, []).append((e.event_type, getattr(getattr(e, "ev", None), "session_id", None)))
    energy_prev = {}
    for p in tr.periods:
        t = p["t"]
        pre = p.get("pre")
        if pre is None:
            out.add("C19/no_pre_snapshot", "t=%d" % t)
            break
        # events of this period in the order the simulator processed them (order inside a class is unconstrained)
        evs = order_in_period.get(t, [])
        obs_pre = {s: v[0] for s, v in pre["st"].items()}
        for kind, sid in evs:
            if kind == "Unplug":
                if sid in waiting:
                    waiting.remove(sid)
                    never += 1
                    left_waiting.add(sid)
                elif sid in where:
                    st = where.pop(sid)
                    del at[st]
                    if waiting:
                        nxt = waiting.pop(0)
                        at[st] = nxt
                        where[nxt] = st
                        swaps += 1
                        ever_connected.add(nxt)
                        admitted_after_wait.add(nxt)
                # else: already gone through early departure
            elif kind == "Plugin":
                free = [s for s in ids if s not in at]
                if free:
                    # the model does not predict which free station: read it from the observation, require membership
                    st = next((s for s in ids if obs_pre.get(s) == sid), None)
                    if st is None:
                        # it may have been unplugged again within the same period only if departure == arrival (not generated)
                        out.add("C19/lost_session", "t=%d session %s arrived with free stations %s but is connected nowhere" % (t, sid, free))
                        break
                    if st not in free:
                        out.add("C19/plugged_into_occupied", "t=%d session %s placed at %s which the model holds for %s" % (t, sid, st, at.get(st)))
                        break
                    at[st] = sid
                    where[sid] = st
                    ever_connected.add(sid)
                    out.probe("direct_plugin")
                else:
                    waiting.append(sid)
                    waited.add(sid)
        if out.viol:
            break
        # ---- state after this period's events and charging (pre snapshot)
        if obs_pre != {s: at.get(s) for s in ids}:
            out.add("C19/occupancy", "t=%d stations hold %s, model %s" % (t, obs_pre, {s: at.get(s) for s in ids}))
            break
        if list(pre["waiting"]) != waiting:
            out.add("C19/waiting_queue", "t=%d waiting %s, model (FIFO) %s" % (t, list(pre["waiting"]), waiting))
            break
        if waiting and len(at) < len(ids):
            out.add("C19/waiting_while_free", "t=%d %s wait although stations %s are free" % (t, waiting, [s for s in ids if s not in at]))
            break
        present = [s["session_id"] for s in sc["sessions"] if s["arrival"] <= t < s["departure"]]
        for sid in present:
            places = (1 if sid in where else 0) + (1 if sid in waiting else 0)
            if places > 1:
                out.add("C19/session_in_two_places", "t=%d %s" % (t, sid))
        # ---- early departure (post_charging_update)
        if early:
            sat = []
            for s in ids:
                v = pre["st"][s]
                if v[0] is not None:
                    rem = sess[v[0]]["energy"] - v[2]
                    ca_ = sess[v[0]].get("content_at")
                    if ca_ is not None:
                        # (a content driver: satisfied from content_at x request on; see build.ContentAtEV)
                        rem = ca_ * sess[v[0]]["energy"] - v[2]
                        out.probe("content_driver_connected")
                    if abs(rem - 1e-3) < 1e-9:
                        out.inconclusive += 1
                    if not (rem > 1e-3):
                        sat.append((s, v[0], rem))
            for s, sid, rem in sat:
                if waiting:
                    del at[s]
                    where.pop(sid, None)
                    nxt = waiting.pop(0)
                    at[s] = nxt
                    where[nxt] = s
                    swaps += 1
                    early_un += 1
                    ever_connected.add(nxt)
                    admitted_after_wait.add(nxt)
                    out.probe("early_unplug")
                    if rem > 0:
                        out.probe("satisfied_residual_evicted")
        obs_post = {s: v[0] for s, v in p["st"].items()}
        if obs_post != {s: at.get(s) for s in ids} or list(p["waiting"]) != waiting:
            out.add("C19/post_update_state", "t=%d after post_charging_update stations %s waiting %s, model %s / %s"
                    % (t, obs_post, list(p["waiting"]), {s: at.get(s) for s in ids}, waiting))
            break
        if p["counters"] != (swaps, never, early_un):
            out.add("C19/counters", "t=%d (swaps, never_charged, early_unplug) = %s, model %s" % (t, p["counters"], (swaps, never, early_un)))
            break
        if len(waiting) >= 1 and len(p["waiting"]) >= 2:
            out.probe("two_or_more_waiting_at_admission")
    out.probe("waited_then_admitted", len(admitted_after_wait))
    out.probe("left_while_waiting", len(left_waiting))
    out.probe("resumed", len(tr.resumes))
    if sc.get("generated"):
        out.probe("generated_multi_day_queue")
    if sc.get("recorded_arrival_before_plugin"):
        out.probe("recorded_arrivals_in_another_order_than_plugins")
    if sc.get("content_drivers"):
        out.probe("content_drivers_world")
    if "query_after_first_registrations" in sc["network"]:
        out.probe("queried_between_registrations")
    out.probe("choice_" + sc["tapes"]["choice"] if sc["tapes"]["choice"] in ("first", "last") else "direct_plugin", 0)
    if sc["tapes"]["choice"] in ("first", "last"):
        out.probe("choice_" + sc["tapes"]["choice"])
    out.nontrivial = bool(admitted_after_wait) and bool(left_waiting)
    if not ok or out.viol:
        return out
    nw = tr.sim.network
    if any(nw.get_ev(s) is not None for s in ids) or len(nw.waiting_queue):
        out.add("C19/not_gone_at_end", "connected %s waiting %s" % ([s for s in ids if nw.get_ev(s) is not None], list(nw.waiting_queue)))
    if nw.never_charged != len(left_waiting):
        out.add("C19/never_charged", "never_charged %d, sessions that departed while waiting %d" % (nw.never_charged, len(left_waiting)))
    for sid, evo in tr.sim.ev_history.items():
        if sid not in ever_connected and evo.energy_delivered != 0:
            out.add("C19/energy_without_connection", "%s never connected but has %r kWh" % (sid, evo.energy_delivered))
    if set(tr.sim.ev_history) != set(sess):
        out.add("C19/ev_history", "%s vs %s" % (sorted(tr.sim.ev_history), sorted(sess)))
    # reproducible under a fixed random seed with the seam off (real random.choice)
    if sc.get("run", 0) % 5 == 0 and not sc["faults"]:
        res = []
        for _ in range(2):
            sc2 = copy.deepcopy(sc)
            sc2["tapes"]["choice"] = "real"
            _random.seed(1234)
            tr2 = run_real_choice(sc2)
            res.append((tr2.sim.charging_rates.tolist(), sorted((k, v.energy_delivered, v.station_id) for k, v in tr2.sim.ev_history.items())))
        out.probe("same_seed_rerun")
        if res[0] != res[1]:
            out.add("C19/not_reproducible_under_seed", "two runs under random.seed(1234) differ")
    return out


def run_real_choice(sc):
    """Seam off: the library's own random.choice, global generator seeded by the caller."""
    return driver.run_world(sc, observe=0, snapshot=False)


# ---------------------------------------------------------------- "reproducible under a fixed random seed" also means: in another
# interpreter process (another PYTHONHASHSEED). The event-log digest contains every random.choice call (candidates, pick).
def _digests(seed, tier, lo, hi):
    from ..rng import run_seed
    out = []
    for idx in range(lo, hi):
        sc = gen(run_seed(seed, ID, idx), tier)
        sc.update(property=ID, verif_seed=seed, run=idx)
        import sys as _sys
        from ..engine import safe_check
        o = safe_check(_sys.modules[__name__], ID, sc)     # (an exception inside the library is a digest of its own, not a harness error)
        out.append(o.digest)
    return out


def post_run(tier, seed):
    import json, os, subprocess, sys
    from ..rng import run_seed
    n = 150 if tier == "quick" else 1500
    mine = _digests(seed, tier, 0, n)
    env = dict(os.environ)
    env["PYTHONHASHSEED"] = "4242"
    env["PYTHONPATH"] = os.path.dirname(os.path.dirname(os.path.dirname(os.path.abspath(__file__)))) + os.pathsep + env.get("PYTHONPATH", "")
    p = subprocess.run([sys.executable, "-m", "dsim.props.c19", str(seed), tier, "0", str(n)], env=env, capture_output=True,
                       text=True, timeout=900)
    if p.returncode != 0:
        raise RuntimeError("fresh interpreter failed: " + p.stderr[-500:])
    theirs = json.loads(p.stdout.strip().splitlines()[-1])
    viols = []
    for i, (a, b) in enumerate(zip(mine, theirs)):
        if a != b:
            sc = gen(run_seed(seed, ID, i), tier)
            sc.update(property=ID, verif_seed=seed, run=i, _hashseed_pair=[int(os.environ.get("PYTHONHASHSEED", "0") or 0), 4242])
            viols.append((i, sc, [("C19/hash_seed_dependence", "world %d: same scenario, same random tape, event-log digest %s under PYTHONHASHSEED=0 and %s "
                                   "under 4242 in a fresh interpreter (the free-station candidates or their order depend on the hash seed)" % (i, a, b))]))
            if len(viols) >= 2:
                break
    return {"viols": viols, "probes": {"hashseed_fresh_interpreter": n}}


if __name__ == "__main__":
    import json, sys
    seed_, tier_, lo_, hi_ = int(sys.argv[1]), sys.argv[2], int(sys.argv[3]), int(sys.argv[4])
    print(json.dumps(_digests(seed_, tier_, lo_, hi_)))
