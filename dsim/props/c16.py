"""C16 - predefined site networks never admit more power than transformer ratings.

No schedule/fault dimension of its own: an invariant over (a) pilot columns applied in simulations on the site networks under
saturating real algorithms and (b) boundary probes (hill climbs on network.is_feasible) sent against the same networks."""
import math
from .. import sut, world, driver
from ..engine import Outcome
from ..rng import sub, digest
from ..models import phasor
from ..worldprop import base_outcome, completion

np = sut.np
ID = "C16"
RUNS = {"quick": 1600, "thorough": 60000}
BUDGET = {"quick": 50, "thorough": 800}
CHUNK = 40
DET_EVERY = 60
V_LL = 120.0 * math.sqrt(3.0)
RULE = ("site in {caltech, jpl, office001} x basic/real EVSEs x generated transformer capacities and voltage argument; 5 of 6 "
        "runs: 2-4 hill climbs (coordinate ascent on the sum of currents from a random feasible point, each station raised to "
        "its feasibility limit by bisection on network.is_feasible, stations visited alternating phase pairs or concentrated "
        "on one pair); 1 of 6: a simulation under a saturating greedy algorithm, every applied pilot column checked; "
        "non-trivial = a feasible schedule within 1% of a transformer limit; distinct = (site, EVSE type, capacity bucket, "
        "climb order kind, which transformer saturates)")
PROBES = ["climb", "within_1pct_of_transformer", "concentrated_phase_pair", "sim_world", "sim_columns_checked",
          "jpl_first_floor_saturated", "jpl_third_fourth_saturated", "pod_or_panel_binding", "evse_limited_climb", "int_dtype_probe", "json_restart", "multi_period_probe",
          "multi_period_reported_feasible", "what_if_constraint_removed_on_own_copy", "schedule_over_1000_periods", "caltech_built_through_old_alias", "schedule_as_dataframe", "concurrent_callers", "thread_switches"]
FAULT_DIMENSION = "restart only (site network saved to JSON and loaded before probing); otherwise saturated-state distribution"
REAL_VS_STUB = "real: caltech_acn / jpl_acn / office001_acn, Current algebra, ChargingNetwork.is_feasible, sorted algorithm + Simulator in the in-simulation layer"
ASSUMPTIONS = ["external truth: which EVSEs sit behind which transformer (Caltech/Office001: all; JPL: AG-1F* vs AG-3F*/AG-4F*), "
               "pod / sub-panel / panel ratings 80 / 100 / 225 A and their membership (as stated in the site files' comments)",
               "nominal 120 V line-to-neutral: real power = sum over EVSEs of 120*sqrt(3) * I; bound cap*1000*(1+1e-6)"]
POD_RATING = {"CC Pod": 80, "AV Pod": 80}
CC_POD = ["CA-322", "CA-493", "CA-496", "CA-320", "CA-495", "CA-321", "CA-323", "CA-494"]
AV_POD = ["CA-324", "CA-325", "CA-326", "CA-327", "CA-489", "CA-490", "CA-491", "CA-492"]


def gen(rs, tier):
    r = sub(rs, "c16")
    site = r.choice(["caltech", "caltech", "jpl", "jpl", "office001"])
    kw = {"basic_evse": r.random() < 0.5, "voltage": r.choice([208, 208, 240, 120])}
    if site == "caltech":
        kw["transformer_cap"] = r.choice([150, 150, 80, 100, 200, round(r.uniform(40, 250), 1)])
    elif site == "office001":
        kw["transformer_cap"] = r.choice([50, 20, 30, round(r.uniform(10, 45), 1)])
    else:
        kw["first_transformer_cap"] = r.choice([45, 45, 30, round(r.uniform(15, 70), 1)])
        kw["third_fourth_transformer_cap"] = r.choice([150, 150, 100, round(r.uniform(50, 220), 1)])
        if sub(rs, "equal_caps").random() < 0.12:
            kw["third_fourth_transformer_cap"] = kw["first_transformer_cap"]       # both JPL transformers of the same rating
    rz = sub(rs, "zero_cap")
    if rz.random() < 0.05:
        # a transformer out of service / the last step of a de-rating sweep: a capacity of exactly 0 kW (nothing may flow through it)
        k0 = rz.choice(sorted(k_ for k_ in kw if k_.endswith("cap")))
        kw[k0] = rz.choice([0, 0.0])
    sc = {"seed": rs, "site": site, "site_kwargs": kw, "mode": "sim" if rs % 6 == 0 else "climb", "json_restart": r.random() < 0.3,
          "site_alias": site == "caltech" and sub(rs, "alias").random() < 0.3,
          "climbs": r.randint(2, 4), "sort": r.choice(["fcfs", "lcfs", "llf", "edf", "lrpt"])}
    return sc


def groups_of(site, ids, kw):
    if site == "jpl":
        return [("First Floor Transformer", [s for s in ids if s.startswith("AG-1F")], kw["first_transformer_cap"]),
                ("Third/Fourth Floor Transformer", [s for s in ids if s.startswith("AG-3F") or s.startswith("AG-4F")], kw["third_fourth_transformer_cap"])]
    return [("Transformer", list(ids), kw["transformer_cap"])]


def check_schedule(out, nw, site, kw, ids, vec, tag, feasible_known=None):
    """vec: list of currents aligned with ids. If the network calls it feasible, the physical bounds must hold."""
    A = np.array([[x] for x in vec], dtype=float)
    feas = bool(nw.is_feasible(A)) if feasible_known is None else feasible_known
    if not feas:
        return None
    idx = {s: i for i, s in enumerate(ids)}
    ratios = {}
    for name, members, cap in groups_of(site, ids, kw):
        P = sum(V_LL * vec[idx[s]] for s in members)
        # (absolute slack: the feasibility check itself allows each line current its violation tolerance of 1e-5 A; three lines at 120 V)
        slack = 1e-6 + 3 * 120 * 2e-5
        ratios[name] = P / (cap * 1000.0) if cap else (0.0 if P <= slack else float("inf"))
        if P > cap * 1000.0 * (1 + 1e-6) + slack:
            out.add("C16/transformer_power", "%s %s: schedule reported feasible draws %.1f W through %s rated %.1f kW (ratio %.4f) [%s]"
                    % (site, kw, P, name, cap, ratios[name], tag))
            return ratios
    # pods / sub-panels / panels from external truth
    ang = nw._phase_angles
    def line_currents(members):
        # delta-connected loads: I_a = I_ab - I_ca, I_b = I_bc - I_ab, I_c = I_ca - I_bc with the registered angles
        ab = sum(vec[idx[s]] * phasor.unit(ang[idx[s]]) for s in members if round(ang[idx[s]]) == 30)
        bc = sum(vec[idx[s]] * phasor.unit(ang[idx[s]]) for s in members if round(ang[idx[s]]) == -90)
        ca = sum(vec[idx[s]] * phasor.unit(ang[idx[s]]) for s in members if round(ang[idx[s]]) == 150)
        return abs(ab - ca), abs(bc - ab), abs(ca - bc)
    if site == "caltech":
        for name, mem in (("CC Pod", CC_POD), ("AV Pod", AV_POD)):
            tot = sum(vec[idx[s]] for s in mem)
            if tot > 80 * (1 + 1e-6) + 1e-4:
                out.add("C16/pod_rating", "caltech: feasible schedule draws %.3f A through %s rated 80 A [%s]" % (tot, name, tag))
                return ratios
            if tot > 79:
                out.probe("pod_or_panel_binding")
    if site == "jpl":
        panels = [("First Floor SP1", ["AG-1F11", "AG-1F12", "AG-1F13", "AG-1F14"], 100),
                  ("First Floor SP2", ["AG-1F0%d" % i for i in range(1, 7)], 100),
                  ("Third Floor Panel", [s for s in ids if s.startswith("AG-3F")], 225),
                  ("Fourth Floor Panel", [s for s in ids if s.startswith("AG-4F")], 225)]
        for name, mem, rating in panels:
            for ph, cur in zip("abc", line_currents(mem)):
                if cur > rating * (1 + 1e-6) + 1e-4:
                    out.add("C16/panel_rating", "jpl: feasible schedule puts %.3f A on %s phase %s rated %d A [%s]" % (cur, name, ph, rating, tag))
                    return ratios
                if cur > rating * 0.99:
                    out.probe("pod_or_panel_binding")
    return ratios


def structural(out, nw, site, kw, ids):
    df = nw.constraints_as_df()
    trows = [n for n in df.index if "Secondary" in n or "Primary" in n]
    for i, s in enumerate(ids):
        a = float(nw._phase_angles[i])
        if round(a, 6) not in (30.0, -90.0, 150.0):
            out.add("C16/phase_angle", "%s: EVSE %s registered at %r degrees" % (site, s, a))
            return
        if not any(abs(float(df.loc[n, s])) > 0 for n in trows):
            out.add("C16/evse_not_covered", "%s: EVSE %s has no coefficient in any transformer constraint" % (site, s))
            return
    want = dict(POD_RATING) if site == "caltech" else {}
    if site == "jpl":
        for p in "abc":
            want["First Floor SP1 I_" + p] = 100
            want["First Floor SP2 I_" + p] = 100
            want["Third Floor Panel I_" + p] = 225
            want["Fourth Floor Panel I_" + p] = 225
    for n, v in want.items():
        if n not in df.index:
            out.add("C16/missing_constraint", "%s: no constraint named %r" % (site, n))
            return
        got = float(nw.magnitudes[list(df.index).index(n)])
        if abs(got - v) > 1e-9:
            out.add("C16/rating", "%s: constraint %r limited to %r A, rating %r A" % (site, n, got, v))
            return
    for name, members, cap in groups_of(site, ids, kw):
        pre = "" if site != "jpl" else name + " "
        for p in "ABC":
            n = pre + "Secondary " + p
            if n in df.index:
                got = float(nw.magnitudes[list(df.index).index(n)])
                if abs(got - cap * 1000.0 / 3 / 120) > 1e-6 * got:
                    out.add("C16/secondary_limit", "%s: %r limited to %r A, expected cap*1000/3/120 = %r" % (site, n, got, cap * 1000.0 / 3 / 120))
                    return


def climb(nw, ids, r, kind):
    n = len(ids)
    ang = [round(float(a)) for a in nw._phase_angles]
    mx = [float(m) for m in nw.max_pilot_signals]
    x = np.zeros((n, 1))
    if r.random() < 0.5:
        x[:, 0] = [r.uniform(0, 4) for _ in range(n)]
        if not nw.is_feasible(x):
            x[:] = 0
    order = list(range(n))
    r.shuffle(order)
    if kind == "alternate":
        by = {30: [], -90: [], 150: []}
        for i in order:
            by.setdefault(ang[i], []).append(i)
        order = []
        lists = [l for l in by.values() if l]
        while any(lists):
            for l in lists:
                if l:
                    order.append(l.pop())
    elif kind == "concentrate":
        first = r.choice([30, -90, 150])
        order = [i for i in order if ang[i] == first] + [i for i in order if ang[i] != first]
    for i in order:
        lo, hi = float(x[i, 0]), mx[i]
        x[i, 0] = hi
        if nw.is_feasible(x):
            continue
        for _ in range(22):
            mid = (lo + hi) / 2
            x[i, 0] = mid
            if nw.is_feasible(x):
                lo = mid
            else:
                hi = mid
        x[i, 0] = lo
    return [float(v) for v in x[:, 0]]


def check(sc):
    import warnings
    from ..build import build_network
    if sc["mode"] == "sim":
        return check_sim(sc)
    out = Outcome()
    r = sub(sc["seed"], "climb")
    with warnings.catch_warnings():
        warnings.simplefilter("ignore")
        nw = build_network({"kind": sc["site"], "site_kwargs": sc["site_kwargs"], "site_alias": sc.get("site_alias", False)})
        if sc.get("site_alias"):
            out.probe("caltech_built_through_old_alias")
        if sc.get("json_restart"):
            # restart: the site network is saved to JSON and loaded; everything below runs on the loaded object
            reg = list(nw.station_ids)
            nw = type(nw).from_json(nw.to_json())
            out.probe("json_restart")
            if list(nw.station_ids) != reg:
                out.add("C16/station_order_after_load", "%s: loaded network lists stations %s..., built order %s..." % (sc["site"], list(nw.station_ids)[:5], reg[:5]))
        ids = nw.station_ids
        if not out.viol:
            structural(out, nw, sc["site"], sc["site_kwargs"], ids)
        best = {}
        kinds = []
        thread_log = []
        for c in range(sc["climbs"]):
            if out.viol:
                break
            kind = r.choice(["alternate", "alternate", "random", "concentrate"])
            kinds.append(kind)
            vec = climb(nw, ids, r, kind)
            out.probe("climb")
            if kind == "concentrate":
                out.probe("concentrated_phase_pair")
            ratios = check_schedule(out, nw, sc["site"], sc["site_kwargs"], ids, vec, "hill climb %d (%s)" % (c, kind), feasible_known=True)
            for k, v in (ratios or {}).items():
                best[k] = max(best.get(k, 0), v)
            if all(abs(v - m) < 1e-9 for v, m in zip(vec, nw.max_pilot_signals)):
                out.probe("evse_limited_climb")
            # multi-period schedules: the saturated point next to lighter and heavier columns, in random positions; if the
            # network calls the whole schedule feasible, every one of its columns must respect the physical bounds
            if not out.viol:
                mx = [float(m) for m in nw.max_pilot_signals]
                cols = [[0.0] * len(vec), [0.5 * v for v in vec], list(vec), [min(1.3 * v + 2.0, m) for v, m in zip(vec, mx)],
                        [min(0.9 * v, m) for v, m in zip(vec, mx)]]
                T = r.choice([3, 4, 5])
                pick = [r.randrange(len(cols)) for _ in range(T)]
                if r.random() < 0.7 and 3 not in pick:
                    pick[r.randrange(T)] = 3
                if sub(sc["seed"], "long_schedule", c).random() < 0.2:
                    # an offline schedule of more than a thousand periods: light columns everywhere, the heavier one somewhere
                    T = r.choice([1025, 1100, 2050, 1500])
                    pick = [r.choice([0, 1, 4]) for _ in range(T)]
                    pick[r.choice([T - 1, T - 2, r.randrange(T), r.randrange(1024, T)])] = 3
                    out.probe("schedule_over_1000_periods")
                M = np.array([[cols[j][k] for j in pick] for k in range(len(vec))], dtype=float)
                out.probe("multi_period_probe")
                as_df = sub(sc["seed"], "as_dataframe", c).random() < 0.3
                if as_df:
                    # the same schedule held in a pandas DataFrame (rows = stations in network order, default labels), the way it comes
                    # out of a spreadsheet or of DataFrame arithmetic
                    out.probe("schedule_as_dataframe")
                if bool(nw.is_feasible(sut.pd.DataFrame(M) if as_df else M)):
                    out.probe("multi_period_reported_feasible")
                    first_pos = {}
                    for pos, j in enumerate(pick):
                        first_pos.setdefault(j, pos)
                    for j, pos in sorted(first_pos.items()):
                        check_schedule(out, nw, sc["site"], sc["site_kwargs"], ids, cols[j],
                                       "column %d of a %d-period schedule reported feasible (hill climb %d, %s)" % (pos, T, c, kind), feasible_known=True)
                        if out.viol:
                            break
            # two caller threads ask the same network object at the same time (a web service answering two what-if requests): the
            # interleaving of their steps is decided by the run's seed; each must get the answer it would get alone
            if not out.viol and sub(sc["seed"], "threads", c).random() < 0.35:
                from ..threads import Interleaver
                Tt = 2
                A_ = np.array([[cols[3][k_]] * Tt for k_ in range(len(vec))], dtype=float)      # the heavier column
                B_ = np.array([[cols[1][k_]] * Tt for k_ in range(len(vec))], dtype=float)      # half the saturated point
                alone = (bool(nw.is_feasible(A_)), bool(nw.is_feasible(B_)))
                il = Interleaver(sub(sc["seed"], "interleave", c), sut.in_repo)
                res_, info_ = il.run([lambda: bool(nw.is_feasible(A_)), lambda: bool(nw.is_feasible(B_))])
                out.probe("concurrent_callers")
                out.probe("thread_switches", info_["switches"])
                for (kind_, val_), alone_, nm_ in zip(res_, alone, ("heavier", "lighter")):
                    if kind_ == "exc":
                        from ..driver import classify_exception
                        if classify_exception(val_) == "harness":
                            raise val_
                        out.add("C16/concurrent_callers", "two threads calling is_feasible on one network: %s: %s (interleaving %s)"
                                % (type(val_).__name__, str(val_)[:100], info_["order"][:30]))
                        break
                    if val_ != alone_:
                        out.add("C16/concurrent_callers", "two threads calling is_feasible on one %s network (interleaving %s): the %s schedule is "
                                "reported %s, alone it is reported %s" % (sc["site"], info_["order"][:30], nm_, val_, alone_))
                        break
                if not out.viol and res_[0][1] is True:
                    check_schedule(out, nw, sc["site"], sc["site_kwargs"], ids, cols[3], "heavier schedule reported feasible to one of two concurrent callers", feasible_known=True)
                thread_log.append(tuple(info_["order"][:50]))
            # the same point rounded up/down to whole amps, handed over as an *integer-dtype* matrix
            for rnd, nm in ((math.ceil, "ceil"), (math.floor, "floor")):
                iv = [int(min(rnd(v), m)) for v, m in zip(vec, nw.max_pilot_signals)]
                A = np.array([[x] for x in iv], dtype=np.int64)
                out.probe("int_dtype_probe")
                if bool(nw.is_feasible(A)):
                    check_schedule(out, nw, sc["site"], sc["site_kwargs"], ids, [float(x) for x in iv],
                                   "hill climb %d (%s) rounded %s, integer dtype" % (c, kind, nm), feasible_known=True)
    # a what-if study on the caller's OWN network object (drop a constraint, look again): whoever builds the same site afterwards
    # must still get the full constraint set (checked by the structural clauses of the next build, incl. '_repeat' replays)
    if not out.viol and sc.get("what_if", True):
        with warnings.catch_warnings():
            warnings.simplefilter("ignore")
            names_ = list(nw.constraint_index)
            lims_ = [float(x) for x in nw.magnitudes]
            if names_:
                nw.remove_constraint(names_[r.randrange(len(names_))])
                out.probe("what_if_constraint_removed_on_own_copy")
                nw2 = build_network({"kind": sc["site"], "site_kwargs": sc["site_kwargs"], "site_alias": sc.get("site_alias", False)})
                if nw2 is nw or list(nw2.constraint_index) != names_ or [float(x) for x in nw2.magnitudes] != lims_:
                    out.add("C16/second_build_not_independent", "%s %s: after removing a constraint from one built network, building the same "
                            "site again gives %d constraints (first build had %d)%s" % (sc["site"], sc["site_kwargs"], len(nw2.constraint_index),
                                                                                     len(names_), " - the very same object" if nw2 is nw else ""))
    sat = [k for k, v in best.items() if v >= 0.99]
    if sat:
        out.probe("within_1pct_of_transformer")
        out.nontrivial = True
    if sc["site"] == "jpl":
        if "First Floor Transformer" in sat:
            out.probe("jpl_first_floor_saturated")
        if "Third/Fourth Floor Transformer" in sat:
            out.probe("jpl_third_fourth_saturated")
    capb = tuple(sorted((k, int(v // 20)) for k, v in sc["site_kwargs"].items() if k.endswith("cap")))
    out.sig = digest((sc["site"], sc["site_kwargs"]["basic_evse"], capb, kinds, sat))
    out.digest = digest((best, out.tags(), thread_log if "thread_log" in dir() else None))
    out.calls = sc["climbs"]
    return out


def check_sim(sc):
    import warnings
    from ..build import build_network
    r = sub(sc["seed"], "sim")
    with warnings.catch_warnings():
        warnings.simplefilter("ignore")
        nw0 = build_network({"kind": sc["site"], "site_kwargs": sc["site_kwargs"], "site_alias": sc.get("site_alias", False)})
    ids = nw0.station_ids
    stations = []
    for i, s in enumerate(ids):
        ev = nw0._EVSEs[s]
        if ev.is_continuous:
            e = {"type": "EVSE", "max": float(ev.max_rate), "min": 0}
        else:
            e = {"type": "Finite", "rates": [float(x) for x in ev.allowable_pilot_signals]}
        stations.append({"id": s, "evse": e, "voltage": sc["site_kwargs"]["voltage"], "phase": float(nw0._phase_angles[i])})
    k = r.randint(max(4, len(ids) // 3), len(ids))
    chosen = r.sample(ids, k)
    sessions = []
    for j, s in enumerate(chosen):
        a = r.choice([0, 0, 1])
        d = a + r.randint(2, 5)
        sessions.append({"session_id": "s%d" % j, "station": s, "arrival": a, "departure": d, "energy": round(r.uniform(5, 40), 3),
                         "battery": {"type": "Battery", "capacity": 100.0, "init": 0.0, "max_power": 10.0}})
    w = {"seed": sc["seed"], "network": {"kind": sc["site"], "site_kwargs": sc["site_kwargs"], "stations": stations, "constraints": [],
                                        "violation_tolerance": 1e-5, "relative_tolerance": 1e-7},
         "sessions": sessions, "extra_events": [], "sim": {"period": 5, "start": [2020, 1, 1, 0, 0], "store_schedule_history": False,
                                                           "signals": "none", "shuffle_events": 1},
         "party": {"kind": "greedy", "sort": sc["sort"], "estimator": "none", "uninterrupted": False, "max_recompute": 1},
         "faults": [], "tapes": {"noise": "zeros", "choice": "first"}}
    tr = driver.run_world(w, observe=0)
    out = base_outcome(tr, extra_sig=[sc["site"], sc["sort"]])
    completion(tr, out, "C16", required=False)
    out.probe("sim_world")
    nw = tr.sim.network
    sat = False
    for p in tr.periods:
        if p["pilots"] is None:
            continue
        ratios = check_schedule(out, nw, sc["site"], sc["site_kwargs"], ids, p["pilots"], "simulated period %d under greedy %s" % (p["t"], sc["sort"]))
        out.probe("sim_columns_checked")
        if ratios and max(ratios.values()) >= 0.99:
            sat = True
        if out.viol:
            break
    if sat:
        out.probe("within_1pct_of_transformer")
        out.nontrivial = True
    return out


def candidates(sc):
    import copy
    if sc.get("climbs", 1) > 1:
        c = copy.deepcopy(sc)
        c["climbs"] = 1
        yield c
