"""C04 - applied pilots are exactly what the submitted schedules say (messages from the party overlaid in time)."""
import copy
from .. import world, driver, sut
from ..worldprop import base_outcome, completion, REAL_VS_STUB  # noqa

np = sut.np
ID = "C04"
RUNS = {"quick": 17500, "thorough": 200000}
BUDGET = {"quick": 45, "thorough": 780}
RULE = ("scripted-party worlds: schedules of length 1..horizon+k over arbitrary station subsets, {} answers, mixed "
        "containers / scalar types, shuffled key order, max_recompute in {None,1,k}; non-trivial = >=2 overlapping "
        "schedules of different length and >=1 omitted station; distinct = per-period history signature + schedule shapes")
PROBES = ["overlap_diff_len", "omitted_station", "empty_schedule", "beyond_horizon", "beyond_horizon_last_period",
          "rejected_unknown_station", "rejected_ragged", "resumed", "reversed_pair", "resume_json_with_pending_schedule", "second_life"]
FAULT_DIMENSION = "beyond_horizon schedules at any call incl. the last period; malformed schedules (must be rejected atomically); crash + rerun or JSON save/load (pending multi-period schedules must survive)"
ASSUMPTIONS = ["pilot values in scripts are valid for each EVSE class (C13 covers invalid ones)",
               "EVSEs with a continuous range excluding 0 are not generated (an uncovered period would be invalid)"]

PROFILE = world.profile(second_life=0.15, party={"scripted": 1}, evse_kinds={"cont": 4, "dead": 2, "finite": 3, "cont_inf": 1, "cont_neg": 1}, faults={"crash": 0.3, "beyond_horizon": 0.5, "malformed": 0.4, "future_invalid": 0.3},
                        resume_modes=["rerun", "rerun", "json_str", "json_buf"], max_recompute=[None, None, 1, 2, 3, 5], extra_recompute=0.6)


def gen(rs, tier):
    P = PROFILE
    if tier == "thorough" and rs % 10 == 0:
        P = dict(P, stations=(3, 10), horizon=(20, 100), sessions_cap=24)
    sc = world.gen_world(rs, P)
    rq = world.sub(rs, "c04x")
    if rq.random() < 0.2:
        # a scheduler that is asked every period and always names every station (plans get replaced before their tail is used)
        sc["party"].update(max_recompute=1, subset_mode="all", empty_prob=0)
        sc["faults"] = world.gen_faults(rs, sc, P)
    if rq.random() < 0.1:
        sc["party"]["reuse_mapping"] = True      # one mapping object, refilled in place at every call
    return sc


def model_map(sc, calls):
    ids = [s["id"] for s in sc["network"]["stations"]]
    m = {}
    shapes = []
    for c in calls:
        if not c.get("completed") or c.get("malformed"):
            continue          # (an accepted malformed schedule is reported as such; the model has no meaning for it)
        sch = c["schedule"]
        if len(sch) == 0:
            shapes.append((c["t"], 0, 0))
            continue
        L = len(next(iter(sch.values())))
        shapes.append((c["t"], L, len(sch)))
        for k in range(L):
            for s in ids:
                m[(s, c["t"] + k)] = sch[s][k] if s in sch else 0.0
    return m, shapes


def check(sc):
    tr = driver.run_world(sc, observe=0)
    ids = [s["id"] for s in sc["network"]["stations"]]
    m, shapes = model_map(sc, tr.calls)
    out = base_outcome(tr, extra_sig=shapes)
    ok = completion(tr, out, "C04", required=True)
    # probes
    spans = [(t, t + L, L, n) for t, L, n in shapes if L]
    ov = 0
    for i in range(len(spans)):
        for j in range(i + 1, len(spans)):
            a, b = spans[i], spans[j]
            if a[2] != b[2] and a[0] < b[1] and b[0] < a[1]:
                ov += 1
    om = sum(1 for t, L, n in shapes if L and n < len(ids))
    out.probe("overlap_diff_len", ov)
    out.probe("omitted_station", om)
    out.probe("empty_schedule", sum(1 for t, L, n in shapes if L == 0))
    out.probe("plan_with_invalid_tail_accepted", sum(1 for c in tr.calls if c.get("future_invalid") and c.get("completed")))
    if sc["party"].get("reuse_mapping"):
        out.probe("one_mapping_object_refilled")
    bh = [c for c in tr.calls if c.get("beyond") and c.get("completed")]
    out.probe("beyond_horizon", len(bh))
    lt = world.last_event_time(sc)
    out.probe("beyond_horizon_last_period", sum(1 for c in bh if c["t"] == lt))
    out.probe("resumed", len(tr.resumes))
    out.probe("second_life", tr.fault_counts.get("second_life", 0))
    out.probe("resume_json_with_pending_schedule", sum(1 for r in tr.resumes if r["mode"] != "rerun" and any(a <= r["t"] < b for a, b, _, _ in spans)))
    for r in tr.rejections:
        out.probe("rejected_" + r["how"])
    out.nontrivial = ov > 0 and om > 0
    # rejections must be atomic and of the documented type
    for r in tr.rejections:
        if not r["ok_type"]:
            out.add("C04/malformed_wrong_exception", "%s schedule at t=%d raised %s" % (r["how"], r["t"], r["exc"]))
        if r["before"] != r["after"]:
            out.add("C04/malformed_changed_state", "%s schedule at t=%d rejected with %s but simulator state changed" % (r["how"], r["t"], r["exc"]))
    for c in tr.calls:
        if c.get("malformed") and c.get("completed"):
            out.add("C04/malformed_accepted", "%s schedule at t=%d was accepted" % (c["malformed"], c["t"]))
    if not ok or any(t_ == "C04/malformed_accepted" for t_ in out.tags()):
        return out
    sim = tr.sim
    n = sim.iteration
    if sim.pilot_signals.shape[0] != len(ids) or sim.pilot_signals.shape[1] < n:
        out.add("C04/matrix_shape", "%s for %d stations, %d periods" % (sim.pilot_signals.shape, len(ids), n))
        return out
    df = sim.pilot_signals_as_df()
    for t in range(n):
        for i, s in enumerate(ids):
            want = m.get((s, t), 0.0)
            got = float(sim.pilot_signals[i, t])
            if got != want:
                out.add("C04/recorded_pilot", "station %s period %d recorded %r, schedules say %r" % (s, t, got, want))
                return out
            if float(df[s].iloc[t]) != want:
                out.add("C04/pilot_df", "station %s period %d df %r, schedules say %r" % (s, t, float(df[s].iloc[t]), want))
                return out
    for p in tr.periods:
        for s in ids:
            want = m.get((s, p["t"]), 0.0)
            if p["st"][s][1] != want:
                out.add("C04/applied_pilot", "station %s period %d EVSE pilot %r, schedules say %r" % (s, p["t"], p["st"][s][1], want))
                return out
    # key-order independence: paired run with every answer's mapping reversed
    if sc["run"] % 4 == 0 if "run" in sc else True:
        sc2 = copy.deepcopy(sc)
        sc2["party"]["reverse_keys"] = True
        tr2 = driver.run_world(sc2, observe=0, snapshot=False)
        out.probe("reversed_pair")
        if tr2.exc is not None or tr2.sim.pilot_signals.shape != sim.pilot_signals.shape or \
                not np.array_equal(tr2.sim.pilot_signals, sim.pilot_signals) or \
                not np.array_equal(tr2.sim.charging_rates, sim.charging_rates):
            out.add("C04/key_order_dependence", "reversing the order of the mapping's entries changed the outcome (%r)" % (tr2.exc,))
    return out
