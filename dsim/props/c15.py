"""C15 - generated sessions are well-formed and their batteries can hold the request.

ACN-Data path: documents travel fake server -> DataClient -> acndata_events.get_evs (host TZ varied). Stochastic path: a seeded
StochasticEvents.sample override -> generate_events. The capacity-fit clause is decided by actually charging the generated
EV at full rate for its whole stay."""
import datetime as dt
import math
import os
import time
import zoneinfo
from fractions import Fraction

from .. import sut
from ..engine import Outcome
from ..rng import sub, digest
from ..models.acndata import FakeServer, rfc1123
from .c20 import serialise, ZONES, HOST_TZ, DST_EPOCHS

np = sut.np
ID = "C15"
RUNS = {"quick": 30000, "thorough": 150000}
BUDGET = {"quick": 45, "thorough": 780}
CHUNK = 300
DET_EVERY = 200
RULE = ("2 of 3 runs: 1-12 ACN-Data documents (instants incl. DST transitions, several zones, 0.01-100 kWh, stays from one "
        "period to days) served by the fake server and converted by get_evs with generated start (aware/naive), period, "
        "voltage, max power, max_len, force_feasible and battery_params (None / ideal+kwargs / Linear2Stage+batt_cap_fn), "
        "under a generated host TZ; 1 of 3: stochastic sample matrices through generate_events; non-trivial = a document "
        "whose stay crosses a DST change or a request below half of the deliverable energy; distinct = (path, options, TZ, "
        "period, #docs, capped?)")
PROBES = ["via_generate_events", "acndata_path", "stochastic_path", "stay_crosses_dst", "max_len_capped", "force_feasible_capped", "fit_used",
          "fit_closed_form_branch", "fit_search_branch", "naive_start", "host_tz_non_utc", "fit_infeasible_inconclusive",
          "departure_eq_arrival", "request_below_half_deliverable", "lenient_server_out_of_window_docs", "arrival_before_start", "integer_typed_sample_matrix", "earlier_call_with_other_battery_params", "one_battery_params_dict_for_two_conversions", "zero_energy_document", "claimed_session_with_user_inputs"]
FAULT_DIMENSION = "host time zone changes (S6); server paging as in C20; lenient server returning documents outside the requested window"
REAL_VS_STUB = ("real: acndata_events.get_evs/_convert_to_ev, DataClient, acndata.utils, StochasticEvents.generate_events/"
                "_convert_ev_matrix, batt_cap_fn, EV, Battery, Linear2StageBattery; stub: requests -> fake server; "
                "GaussianMixture not run (seeded sample override)")
ASSUMPTIONS = ["stochastic path: max_len is applied to the duration in hours (what the repository's own suite pins)",
               "fit clause uses max_battery_power = 32 A * V (batt_cap_fn's built-in max rate) and requests <= 0.9 x deliverable",
               "fit tolerance: |delivered - requested| <= 1e-5 kWh (the fit's own bisection tolerance is 1e-9 in SoC)"]


def gen(rs, tier):
    r = sub(rs, "c15")
    period = r.choice([1, 5, 5, 15, 60, 7, 8, 2.5, 7.5])
    V = r.choice([120, 208, 208, 240])
    fit = r.random() < 0.4
    max_power = 32 * V / 1000.0 if fit else round(r.uniform(1, 12), 3)
    bp = "fit" if fit else r.choice(["none", "none", "ideal_kwargs", "l2_kwargs"])
    common = {"seed": rs, "period": period, "voltage": V, "max_power": max_power, "battery": bp,
              "max_len": r.choice([None, None, r.randint(1, 40), r.randint(40, 400)]),
              "force_feasible": True if fit else r.random() < 0.5, "host_tz": r.choice(HOST_TZ)}
    if rs % 3 == 2:
        rows = []
        for _ in range(r.randint(1, 10)):
            a = r.uniform(0, 24)
            u_ = r.random()
            if u_ < 0.08:
                a = 24.0                      # a draw beyond midnight pinned to the default arrival_max: first period of the next day
            elif u_ < 0.12:
                a = r.uniform(24, 27)         # a user bound arrival_max > 24: arrivals after midnight
            elif u_ < 0.16:
                a = float(r.randint(0, 23)) + r.choice([0.0, 0.25, 0.5])
            d = r.choice([r.uniform(0.0833, 2), r.uniform(1, 12), r.uniform(10, 48)])
            deliverable = max_power * d
            e = deliverable * r.uniform(0.05, 0.8) if fit else r.choice([r.uniform(0.5, 30), deliverable * r.uniform(0.1, 2.0)])
            if fit:
                # the fit needs a stay of >= 1 whole period and a request that the whole-period stay can deliver
                pph = 60.0 / period
                while int((a + d) * pph) - int(a * pph) < 1:
                    d += period / 60.0
                stay_p = int((a + d) * pph) - int(a * pph)
                e = min(max(0.5, e), 0.8 * max_power * stay_p * period / 60.0, 55.0)
                if e < 0.5:
                    d += 1.0
                    stay_p = int((a + d) * pph) - int(a * pph)
                    e = max(0.5, min(0.8 * max_power * stay_p * period / 60.0, 55.0) * 0.5)
            rows.append([a, d, max(0.5, e)])
        if not fit and r.random() < 0.25:
            # a sampler that returns an integer-typed matrix (whole hours, whole kWh): caps and conversions must not be
            # truncated back into that dtype
            rows = [[int(a) % 24, max(1, int(round(d))), max(1, int(round(e)))] for a, d, e in rows]
            common["int_matrix"] = True
            if common["max_len"] is not None and r.random() < 0.5:
                common["max_len"] = r.choice([1.5, 2.5, 3.5, 7.25])
        common.update(path="stochastic", days=[len(rows)], rows=rows)
        if fit:
            common["max_len"] = None
        return common
    base = 1514764800 + r.randint(0, 3 * 365 * 86400)
    start = base - base % 86400 + r.choice([0, 3600 * 7, 3600 * 8, r.randint(0, 86399)])
    docs = []
    for i in range(r.randint(1, 12)):
        if r.random() < 0.25:
            e = r.choice(DST_EPOCHS) - r.randint(0, 6 * 3600)
            start = min(start, e - r.randint(0, 86400))
        else:
            e = start + r.randint(0, 10 * 86400)
        stay_s = r.choice([r.randint(1, 3) * 60 * period, r.randint(60, 12 * 3600), r.randint(3600, 3 * 86400)])
        stay_p = stay_s / 60.0 / period
        deliverable = max_power * stay_p * period / 60.0
        if fit:
            kwh = max(0.01, deliverable * r.uniform(0.02, 0.9))
            kwh = min(kwh, 55.0)
            if r.random() < 0.08:
                kwh = deliverable * r.uniform(0.97, 1.0)     # more than any two-stage pack can absorb in the stay: the fit must refuse
        else:
            kwh = r.choice([round(r.uniform(0.01, 100), 3), deliverable * r.uniform(0.1, 2.5)])
        docs.append({"_id": "d%d" % i, "connectionTime": e, "disconnectTime": e + stay_s, "doneChargingTime": None,
                     "kWhDelivered": max(0.01, round(kwh, 6)), "sessionID": "sess_%d" % i, "spaceID": "CA-%d" % (300 + i),
                     "timezone": r.choice(ZONES), "note": ""})
    rcl = sub(rs, "claimed")
    for d in docs:
        # sessions claimed through the mobile app carry the driver's inputs (unclaimed ones carry null); the energy of a session is
        # what was DELIVERED, also when that is nothing at all
        u_ = rcl.random()
        if u_ < 0.35:
            d["userInputs"] = None
        elif u_ < 0.75:
            d["userInputs"] = [{"userID": rcl.randint(1, 999), "kWhRequested": round(rcl.uniform(2, 40), 2), "milesRequested": rcl.randint(5, 120),
                                "WhPerMile": rcl.choice([250, 350, 400]), "minutesAvailable": rcl.randint(20, 600), "paymentRequired": True}
                               for _ in range(rcl.choice([1, 1, 2]))]
            d["userID"] = "%06d" % d["userInputs"][-1]["userID"]
        if bp in ("none", "ideal_kwargs") and rcl.random() < 0.08:
            d["kWhDelivered"] = rcl.choice([0, 0.0])
            common["zero_energy_doc"] = True
    if r.random() < 0.2:
        # server-side fault: the where-clause is not applied (lenient / clock-skewed server): documents that connected
        # before the simulation start reach the converter and must still get floor-index arrivals (negative ones)
        common["lenient_server"] = True
        for d in docs[: r.randint(1, 3)]:
            back = r.randint(1, 3 * 86400)
            d["connectionTime"] = start - back
            d["disconnectTime"] = d["connectionTime"] + r.randint(60, 86400)
    if not common["force_feasible"] and bp != "fit" and r.random() < 0.3:
        # corrupt records (charger clock reset while a car was plugged in): the disconnect stamp precedes the connect stamp.
        # Only the period indices are promised; the caller recognises such a record by departure < arrival.
        for d in docs[-r.randint(1, 2):]:
            d["disconnectTime"] = d["connectionTime"] - r.choice([r.randint(1, 120), r.randint(60, 7200), r.randint(3600, 86400)])
        common["reversed_docs"] = True
    if r.random() < 0.3:
        common["prelude_battery"] = r.choice(["fit", "l2_kwargs", "ideal_kwargs", "none"])
    if bp != "fit" and sub(rs, "zero_max_len").random() < 0.04:
        common["max_len"] = 0        # a cap of zero periods is a cap like any other (every session is cut to its arrival period)
    rsp = sub(rs, "same_params_object")
    if rsp.random() < 0.2 and bp != "none":
        # the study re-uses ONE battery_params dictionary for all its conversions (an earlier one was made for chargers of
        # another maximum power): what the library does with the caller's dictionary must not carry over
        common["prelude_battery"] = bp
        common["same_params_object"] = True
    common.update(path="acndata", docs=docs, pages=[r.choice([0, 1, 2, 5, 100]) for _ in range(r.choice([0, 1, 3]))],
                  start=start, end=start + 40 * 86400, start_zone=r.choice([None, None] + ZONES))
    return common


def battery_params(sc):
    from acnportal.acnsim.models.battery import batt_cap_fn
    b = sc["battery"]
    if b == "none":
        return None
    if b == "ideal_kwargs":
        return {"type": sut.Battery, "kwargs": {}}
    if b == "l2_kwargs":
        return {"type": sut.Linear2StageBattery, "kwargs": {"noise_level": 0, "transition_soc": 0.7}}
    return {"type": sut.Linear2StageBattery, "capacity_fn": batt_cap_fn}


def floor_idx(epoch, period):
    return int(Fraction(epoch) // Fraction(60 * period))


def check_ev(out, sc, tag, ev, arrival, departure, energy_doc, deliverable_power_h):
    """Clauses common to both paths. Returns nothing; adds violations."""
    if ev.arrival != arrival or ev.departure != departure:
        out.add("C15/period_index", "%s: arrival/departure %r/%r, expected %r/%r" % (tag, ev.arrival, ev.departure, arrival, departure))
        return
    if ev.departure < ev.arrival:
        if deliverable_power_h < 0:
            out.probe("reversed_record_kept_recognisable")
        else:
            out.add("C15/departure_before_arrival", tag)
    if ev.departure == ev.arrival:
        out.probe("departure_eq_arrival")
    want = energy_doc
    if sc["force_feasible"]:
        cap = sc["max_power"] * deliverable_power_h
        if cap < energy_doc:
            out.probe("force_feasible_capped")
        want = min(energy_doc, cap)
    if abs(float(ev.requested_energy) - want) > 1e-9 * max(1.0, want):
        out.add("C15/requested_energy", "%s: requested %r, expected %r (document energy %r, force_feasible=%r)" % (tag, ev.requested_energy, want, energy_doc, sc["force_feasible"]))
        return
    b = ev._battery
    free = b._capacity - b._current_charge
    slack = 1e-8 * float(b._capacity) if sc["battery"] == "fit" else 0.0   # the fit's own bisection tolerance (1e-9 in SoC)
    if free < want * (1 - 1e-9) - 1e-9 - slack:
        out.add("C15/battery_free_capacity", "%s: battery capacity %r, initial charge %r: free %r < requested %r" % (tag, b._capacity, b._current_charge, free, want))
        return
    if b._current_charge < -1e-12 or b._current_charge > b._capacity * (1 + 1e-12):
        out.add("C15/battery_initial_charge", "%s: initial charge %r outside [0, capacity %r]" % (tag, b._current_charge, b._capacity))
        return
    if abs(b.max_charging_power - sc["max_power"]) > 1e-12:
        out.add("C15/battery_max_power", "%s: %r vs %r" % (tag, b.max_charging_power, sc["max_power"]))
    if sc["battery"] == "fit":
        out.probe("fit_used")
        stay = ev.departure - ev.arrival
        deliverable = sc["max_power"] * stay * sc["period"] / 60.0
        if want < 0.5 * deliverable:
            out.probe("request_below_half_deliverable")
            out.nontrivial = True
        if b._current_charge / b._capacity >= 0.8:
            out.probe("fit_closed_form_branch")
        else:
            out.probe("fit_search_branch")
        for _ in range(stay):
            ev.charge(32, sc["voltage"], sc["period"])
        if abs(ev.energy_delivered - want) > 1e-5:
            out.add("C15/fit_delivered_energy", "%s: charging at 32 A for the %d-period stay delivers %r kWh, requested %r (capacity %r, initial %r)"
                    % (tag, stay, ev.energy_delivered, want, b._capacity, b._init_charge))


def check(sc):
    import warnings
    out = Outcome()
    old_tz = os.environ.get("TZ")
    os.environ["TZ"] = sc["host_tz"]
    time.tzset()
    if sc["host_tz"] != "UTC":
        out.probe("host_tz_non_utc")
    period = sc["period"]
    log = []
    try:
        with warnings.catch_warnings():
            warnings.simplefilter("ignore")
            if sc["path"] == "acndata":
                out.probe("acndata_path")
                from acnportal.acndata import data_client as dc_mod
                from acnportal.acnsim.events import acndata_events
                server = FakeServer([serialise(d) for d in sc["docs"]], sc["pages"])
                server.ignore_where = bool(sc.get("lenient_server"))
                if server.ignore_where:
                    out.probe("lenient_server_out_of_window_docs")
                orig = dc_mod.requests
                dc_mod.requests = server
                try:
                    if sc["start_zone"] is None:
                        out.probe("naive_start")
                        start = dt.datetime.fromtimestamp(sc["start"])           # naive, host-local wall time
                        end = dt.datetime.fromtimestamp(sc["end"])
                    else:
                        z = zoneinfo.ZoneInfo(sc["start_zone"])
                        start = dt.datetime.fromtimestamp(sc["start"], tz=z)
                        end = dt.datetime.fromtimestamp(sc["end"], tz=z)
                    bp_main = battery_params(sc)
                    if sc.get("prelude_battery"):
                        # the library has already converted another batch, with other battery parameters: nothing may stick
                        out.probe("earlier_call_with_other_battery_params")
                        srv0 = FakeServer([serialise({"_id": "z0", "connectionTime": sc["start"] + 600, "disconnectTime": sc["start"] + 7200,
                                                      "doneChargingTime": None, "kWhDelivered": 2.0, "sessionID": "z0", "spaceID": "Z",
                                                      "timezone": "UTC", "note": ""})], [])
                        dc_mod.requests = srv0
                        try:
                            acndata_events.get_evs("tok", "caltech", start, end, period, sc["voltage"], 32 * sc["voltage"] / 1000.0,
                                                   battery_params=(bp_main if sc.get("same_params_object") else battery_params(dict(sc, battery=sc["prelude_battery"]))),
                                                   force_feasible=True)
                        except ValueError:
                            pass
                        dc_mod.requests = server
                        if sc.get("same_params_object"):
                            out.probe("one_battery_params_dict_for_two_conversions")
                    try:
                        if sc["seed"] % 5 == 0:
                            # through the public wrapper that builds the event queue: same sessions, each under a plug-in event
                            # stamped with its arrival period
                            out.probe("via_generate_events")
                            q_ = acndata_events.generate_events("tok", "caltech", start, end, period, sc["voltage"], sc["max_power"],
                                                                max_len=sc["max_len"], battery_params=bp_main,
                                                                force_feasible=sc["force_feasible"])
                            pairs_ = sorted(((ts_, e_.ev) for ts_, e_ in q_.queue), key=lambda z: z[0])
                            for ts_, ev_ in pairs_:
                                if ts_ != ev_.arrival:
                                    out.add("C15/plugin_event_time", "session %s: plug-in event at period %r, arrival %r" % (ev_.session_id, ts_, ev_.arrival))
                                    break
                            evs = [ev_ for _, ev_ in pairs_]     # (stable sort: ties keep queue order; the oracle below matches by id)
                        else:
                            evs = acndata_events.get_evs("tok", "caltech", start, end, period, sc["voltage"], sc["max_power"],
                                                         max_len=sc["max_len"], battery_params=bp_main,
                                                         force_feasible=sc["force_feasible"])
                    except ValueError as x:
                        if sc["battery"] == "fit" and "No feasible battery size" in str(x):
                            out.probe("fit_infeasible_inconclusive")
                            out.inconclusive += 1
                            evs = None
                        else:
                            raise
                finally:
                    dc_mod.requests = orig
                if sc.get("zero_energy_doc"):
                    out.probe("zero_energy_document")
                if any(d_.get("userInputs") for d_ in sc["docs"]):
                    out.probe("claimed_session_with_user_inputs")
                if evs is not None:
                    sel = sorted([d for d in sc["docs"] if sc.get("lenient_server") or sc["start"] <= d["connectionTime"] <= sc["end"]],
                                 key=lambda d: d["connectionTime"])
                    if sc["seed"] % 5 == 0:
                        if sorted(e.session_id for e in evs) != sorted(d["sessionID"] for d in sel):
                            out.add("C15/sessions_converted", "event queue holds %s expected %s" % (sorted(e.session_id for e in evs), sorted(d["sessionID"] for d in sel)))
                    elif [e.session_id for e in evs] != [d["sessionID"] for d in sel] and len({d["connectionTime"] for d in sel}) == len(sel):
                        out.add("C15/sessions_converted", "got %s expected %s" % ([e.session_id for e in evs], [d["sessionID"] for d in sel]))
                    off = floor_idx(sc["start"], period)
                    by = {d["sessionID"]: d for d in sc["docs"]}
                    prev = None
                    for ev in evs:
                        d = by.get(ev.session_id)
                        if d is None:
                            continue
                        a = floor_idx(d["connectionTime"], period) - off
                        if a < 0:
                            out.probe("arrival_before_start")
                        dep = floor_idx(d["disconnectTime"], period) - off
                        if sc["max_len"] is not None and dep - a > sc["max_len"]:
                            dep = a + sc["max_len"]
                            out.probe("max_len_capped")
                        z = zoneinfo.ZoneInfo(d["timezone"])
                        if dt.datetime.fromtimestamp(d["connectionTime"], tz=z).utcoffset() != dt.datetime.fromtimestamp(d["disconnectTime"], tz=z).utcoffset():
                            out.probe("stay_crosses_dst")
                            out.nontrivial = True
                        if ev.station_id != d["spaceID"]:
                            out.add("C15/station_id", "%r vs %r" % (ev.station_id, d["spaceID"]))
                        check_ev(out, sc, "doc %s (tz %s, host %s)" % (d["_id"], d["timezone"], sc["host_tz"]), ev, a, dep,
                                 d["kWhDelivered"], (dep - a) * period / 60.0)
                        if prev is not None and ev.arrival < prev:
                            out.add("C15/order", "arrival %d after %d" % (ev.arrival, prev))
                        prev = ev.arrival
                        log.append((ev.session_id, ev.arrival, ev.departure, repr(float(ev.requested_energy))))
                        if out.viol:
                            break
            else:
                out.probe("stochastic_path")
                if sc.get("int_matrix"):
                    out.probe("integer_typed_sample_matrix")
                from acnportal.acnsim.events import stochastic_events as se

                class Seeded(se.StochasticEvents):
                    def sample(self_, n):
                        if sc.get("int_matrix"):
                            return np.array(sc["rows"][:n], dtype=np.int64)
                        return np.array(sc["rows"][:n], dtype=float)
                gen_ = Seeded()
                try:
                    q = gen_.generate_events(sc["days"], period, sc["voltage"], sc["max_power"], max_len=sc["max_len"],
                                             battery_params=battery_params(sc), force_feasible=sc["force_feasible"])
                except ValueError as x:
                    if sc["battery"] == "fit" and "No feasible battery size" in str(x):
                        out.probe("fit_infeasible_inconclusive")
                        out.inconclusive += 1
                        q = None
                    else:
                        raise
                if q is not None:
                    evs = {e.ev.session_id: e for _, e in q.queue}
                    if len(evs) != len(sc["rows"]):
                        out.add("C15/sessions_converted", "%d events for %d samples" % (len(evs), len(sc["rows"])))
                    pph = Fraction(60) / Fraction(period)
                    for i, (a_h, d_h, e_kwh) in enumerate(sc["rows"]):
                        ev_evt = evs.get("session_%d" % i)
                        if ev_evt is None:
                            continue
                        ev = ev_evt.ev
                        dur = d_h
                        if sc["max_len"] is not None and dur > sc["max_len"]:
                            dur = sc["max_len"]
                            out.probe("max_len_capped")
                        xa = Fraction(a_h) * pph
                        xd = (Fraction(a_h) + Fraction(dur)) * pph
                        def exact_(*vs):
                            # on a period boundary the floor is only judged where every float evaluation of the products is exact:
                            # a whole number of periods per hour and dyadic hours
                            return pph.denominator == 1 and all(Fraction(v).denominator <= 1024 and abs(v) < 2 ** 20 for v in vs)
                        a, dep = int(xa // 1), int(xd // 1)
                        if abs(xa - round(xa)) < Fraction(1, 10 ** 9):
                            if exact_(a_h):
                                out.probe("exact_period_boundary")
                                if a_h >= 24:
                                    out.probe("arrival_at_or_after_midnight")
                            elif abs(ev.arrival - a) <= 1:
                                a = ev.arrival          # either side of a boundary that floats cannot place: not judged
                                out.probe("arrival_boundary_not_judged")
                        if abs(xd - round(xd)) < Fraction(1, 10 ** 9):
                            if exact_(a_h, dur):
                                out.probe("exact_period_boundary")
                            elif abs(ev.departure - dep) <= 1:
                                dep = ev.departure
                                out.probe("departure_boundary_not_judged")
                        if ev_evt.timestamp != a:
                            out.add("C15/plugin_timestamp", "sample %d: plugin event at %d, arrival %d" % (i, ev_evt.timestamp, a))
                        check_ev(out, sc, "sample %d (%.4f h, %.4f h, %.3f kWh)" % (i, a_h, d_h, e_kwh), ev, a, dep, e_kwh, dur)
                        log.append((i, ev.arrival, ev.departure, repr(float(ev.requested_energy))))
                        if out.viol:
                            break
    except Exception as x:
        from ..driver import classify_exception
        if classify_exception(x) == "harness":
            raise
        out.add("C15/exception:" + type(x).__name__, str(x)[:200])
    finally:
        if old_tz is None:
            os.environ.pop("TZ", None)
        else:
            os.environ["TZ"] = old_tz
        time.tzset()
    out.sig = digest((sc["path"], sc["battery"], sc["force_feasible"], sc["max_len"] is not None, sc["host_tz"], period,
                      len(sc.get("docs", sc.get("rows", []))), sorted(out.probes)))
    out.digest = digest(log)
    out.calls = len(log)
    return out


def candidates(sc):
    import copy
    key = "docs" if sc["path"] == "acndata" else "rows"
    n = len(sc[key])
    for i in range(n):
        if n > 1:
            c = copy.deepcopy(sc)
            del c[key][i]
            if key == "rows":
                c["days"] = [len(c["rows"])]
            yield c
    for k, v in (("max_len", None), ("host_tz", "UTC"), ("pages", [])):
        if k in sc and sc[k] != v:
            c = copy.deepcopy(sc)
            c[k] = v
            yield c
