"""C06 - the feasibility check matches the phasor definition; network-, interface- and algorithm-side checks agree.

No schedule/fault dimension of its own (a pure function of network and schedule). Simulation contributes the reached
networks/states and one systemic clause (a constraint-free network is usable by schedulers); boundary probes are sent
by the scheduler party during runs."""
from .. import sut, world, driver
from ..rng import sub
from fractions import Fraction
from ..models import phasor
from ..sortedworld import cons_of as cons_at
from ..worldprop import base_outcome, completion, REAL_VS_STUB  # noqa

np = sut.np
ID = "C06"
RUNS = {"quick": 12500, "thorough": 150000}
BUDGET = {"quick": 45, "thorough": 780}
RULE = ("worlds with three-phase mixed-sign constraint matrices (1-6 constraints, limits 1-500 A, both tolerances varied) or "
        "no constraints at all, under every party; at up to 4 calls per run the party probes all three checkers with random "
        "direction matrices (1-4 periods) scaled so that the most binding constraint sits at limit + k*tol, k in "
        "{-10,-2,-0.5,0.5,2,10}; non-trivial = probe within +-2 tolerances of a limit on a mixed-sign constraint with >=2 "
        "distinct phase angles; distinct = history signature + probe pattern")
PROBES = ["probe", "concurrent_callers", "negative_limit_probe", "algorithm_side_default_tolerances", "creeping_schedule_probe", "non_finite_entry_probe", "probe_within_2tol_mixed_sign", "explicit_tolerances", "rel_tol_dominates", "linear_probe", "multi_period",
          "negative_entries", "one_dim_vector", "constraint_free_world", "constraint_free_sorted_completed", "dict_omitted_rows",
          "executed_columns_checked", "invalid_schedule_warning_seen", "probe_after_reconfig", "exact_boundary_probe", "tolerances_retuned_between_questions", "interface_dict_first_row_integer_typed", "long_schedule_with_overloaded_tail", "neighbouring_site_asked_in_between", "infrastructure_description_edited_and_asked_again",
          "exactly_at_limit_plus_tol", "exact_linear_probe"]
FAULT_DIMENSION = ("environment fault only: the operator changes a constraint limit between two periods (all three checkers must "
                   "follow); otherwise state/message distribution (pure function); probes are messages the party sends during a run")
ASSUMPTIONS = ["guard band: verdicts are compared only when the reference margin is outside 1e-9*max(1,limit)",
               "linear mode: only agreement of the three checkers and conservativeness for non-negative schedules are required"]
KS = [-10, -2, -0.5, -0.25, 0.25, 0.5, 0.75, 2, 10]
PROFILE = world.profile(reconfig=0.25, constraints={"none": 1, "three": 5}, binding=(0.2, 1.2),
                        party={"scripted": 3, "uncontrolled": 1, "greedy": 3, "rr": 1}, stations=(1, 7),
                        faults={"crash": 0.3}, resume_modes=["rerun", "rerun", "json_str"])


DY_COEF = [1, 1, 1, -1, 2, 0.5, 0.25, -0.5]


def gen(rs, tier):
    sc = world.gen_world(rs, PROFILE)
    r = sub(rs, "exactworld")
    if sc["network"]["constraints"] and r.random() < 0.2:
        # 'exact' flavour: one phase, dyadic coefficients / limits / tolerances -> every sum is exact in binary floating
        # point, so verdicts AT the boundary (|sum| == limit + tol) are decidable without a guard band
        sc["exact"] = True
        for s_ in sc["network"]["stations"]:
            s_["phase"] = 0
        for c in sc["network"]["constraints"]:
            c["coeffs"] = {k: r.choice(DY_COEF) for k in c["coeffs"]}
            c["limit"] = float(max(1, round(c["limit"] * 2) / 2))
        for rc in sc.get("reconfig", []):
            rc["limit"] = float(max(1, round(rc["limit"] * 2) / 2))
        sc["network"]["violation_tolerance"] = r.choice([0.5, 0.25, 0.125, 0.0, 2.0 ** -10])
        sc["network"]["relative_tolerance"] = r.choice([0.0, 0.0, 2.0 ** -6, 2.0 ** -4])
    return sc


def probe_exact(out, sc, nw, iface, r, tag, cons):
    """Boundary probes with exact arithmetic (exact worlds only): the most binding constraint sits exactly AT limit + tol
    (must be feasible: 'at most') or one dyadic step above it (must be infeasible)."""
    ids = [s["id"] for s in sc["network"]["stations"]]
    N = len(ids)
    vt, rt = sc["network"]["violation_tolerance"], sc["network"]["relative_tolerance"]
    F = Fraction
    caps = [F(lim) + max(F(vt), F(rt) * F(lim)) for _, lim in cons]
    j = r.randrange(len(cons))
    row = cons[j][0]
    members = [i for i, c in enumerate(row) if c]
    if not members:
        return
    i = r.choice(members)
    T = r.choice([1, 1, 2, 3])
    tcol = r.randrange(T)
    M = [[F(0)] * T for _ in range(N)]
    for k in range(N):
        for t in range(T):
            if r.random() < 0.6:
                M[k][t] = F(r.randint(0, 64), 4)
    bump = r.choice([F(0), F(0), F(1, 2 ** 20), F(1, 4)])
    sgn = r.choice([1, 1, -1])
    S = sum(F(row[k]) * M[k][tcol] for k in range(N) if k != i)
    M[i][tcol] = (sgn * (caps[j] + bump) - S) / F(row[i])
    # exact verdict over all constraints and periods
    worst = None
    for (rw, lim), cap in zip(cons, caps):
        for t in range(T):
            m = cap - abs(sum(F(rw[k]) * M[k][t] for k in range(N)))
            worst = m if worst is None or m < worst else worst
    A = np.array([[float(x) for x in rowx] for rowx in M], dtype=float)
    if any(F(float(x)) != x for rowx in M for x in rowx):
        return      # not exactly representable: leave it to the guard-banded probes
    want = worst >= 0
    infra = iface.infrastructure_info()
    d = {ids[k]: [float(x) for x in M[k]] for k in range(N)}
    res = {"network": bool(nw.is_feasible(A)), "interface": bool(iface.is_feasible(d)),
           "algorithm": bool(sut.algo_utils.infrastructure_constraints_feasible(A, infra, False, vt, rt))}
    out.probe("exact_boundary_probe")
    if worst == 0:
        out.probe("exactly_at_limit_plus_tol")
    for kk, v in res.items():
        if v != want:
            out.add("C06/%s_at_exact_boundary" % kk, "%s: %s check says %s, exact arithmetic says %s (worst margin %s A; constraint %d "
                    "|sum| vs limit+tol %s; vt=%g rt=%g T=%d)" % (tag, kk, v, want, worst, j, caps[j], vt, rt, T))
            return
    # linear relaxation at its own exact boundary (non-negative schedule)
    if all(x >= 0 for rowx in M for x in rowx):
        lw = min(cap - sum(abs(F(rw[k])) * M[k][t] for k in range(N)) for (rw, lim), cap in zip(cons, caps) for t in range(T))
        lres = {"network": bool(nw.is_feasible(A, True)), "interface": bool(iface.is_feasible(d, True)),
                "algorithm": bool(sut.algo_utils.infrastructure_constraints_feasible(A, infra, True, vt, rt))}
        out.probe("exact_linear_probe")
        for kk, v in lres.items():
            if v != (lw >= 0):
                out.add("C06/%s_linear_at_exact_boundary" % kk, "%s: linear %s check says %s, exact |c|-sum margin %s" % (tag, kk, v, lw))
                return


def cons_of(sc):
    ids = [s["id"] for s in sc["network"]["stations"]]
    return [([float(c["coeffs"].get(s, 0)) for s in ids], float(c["limit"])) for c in sc["network"]["constraints"]]


def neighbour_of(sc):
    """A second site alive in the same process: the same station ids, every station on another phase, one feeder limit of its own."""
    ids = [s["id"] for s in sc["network"]["stations"]]
    rot = {30: 150, 150: -90, -90: 30}
    phases = [float(rot.get(s["phase"], s["phase"] + 60)) for s in sc["network"]["stations"]]
    nb = sut.ChargingNetwork()
    for i, sid in enumerate(ids):
        nb.register_evse(sut.EVSE(sid, max_rate=1000), 208, phases[i])
    lim = 7.0 * len(ids)
    nb.add_constraint(sut.Current({sid: 1 for sid in ids}), lim, name="feeder")
    return nb, [([1.0] * len(ids), lim)], phases


def probe_once(out, sc, nw, iface, r, tag, cons, neighbour=None):
    ids = [s["id"] for s in sc["network"]["stations"]]
    phases = [s["phase"] for s in sc["network"]["stations"]]
    N = len(ids)
    T = r.choice([1, 1, 2, 3, 4])
    mode = r.random()
    D = [[(r.uniform(0, 1) if r.random() < 0.8 else 0.0) for _ in range(T)] for _ in range(N)]
    if mode < 0.1:
        i = r.randrange(N)
        D = [[(1.0 if k == i else 0.0) for _ in range(T)] for k in range(N)]
    neg = False
    if mode > 0.9:
        D[r.randrange(N)][r.randrange(T)] *= -1
        neg = any(x < 0 for row in D for x in row)
    explicit = r.random() < 0.4
    vt = sc["network"]["violation_tolerance"]
    rt = sc["network"]["relative_tolerance"]
    kw = {}
    if explicit:
        vt = r.choice([0.0, 1e-6, 1e-4, 0.5])
        rt = r.choice([0.0, 1e-6, 1e-3, 0.05])
        kw = dict(violation_tolerance=vt, relative_tolerance=rt)
        out.probe("explicit_tolerances")
    k = r.choice(KS)
    if not cons:
        M = [[32 * x for x in row] for row in D]
    else:
        g = phasor.max_scale(cons, phases, D, vt, rt, k)
        if g is None:
            M = D
        else:
            M = [[g * x for x in row] for row in D]
    A = np.array(M, dtype=float)
    m, where = phasor.margins(cons, phases, M, vt, rt)
    out.probe("probe")
    if T > 1:
        out.probe("multi_period")
    if neg:
        out.probe("negative_entries")
    infra = iface.infrastructure_info()
    d = {}
    order = list(range(N))
    r.shuffle(order)
    omitted = False
    for i in order:
        if all(x == 0 for x in M[i]) and r.random() < 0.5 and len(d) + (N - len(order)) >= 0:
            omitted = True
            continue
        d[ids[i]] = list(M[i])
    if not d:
        d[ids[0]] = list(M[0])
    rit = sub(sc["seed"], "int_first_row", tag, T)
    if rit.random() < 0.25:
        # the mapping's FIRST entry is integer-typed (a row of whole amps written as ints, or an idle station's [0, 0, ..]): the other
        # rows stay fractional
        zero_rows = [k_ for k_ in d if all(float(x) == int(x) for x in d[k_])]
        if zero_rows:
            k0 = rit.choice(zero_rows)
            row0 = [int(x) for x in d[k0]]
            if rit.random() < 0.5:
                row0 = np.array(row0, dtype=np.int64)
            d = dict([(k0, row0)] + [(k_, v_) for k_, v_ in d.items() if k_ != k0])
            out.probe("interface_dict_first_row_integer_typed")
    if omitted:
        out.probe("dict_omitted_rows")
    if neighbour is not None:
        # the neighbouring site is asked first (the two sites take turns for the rest of the run); each answer is about the site asked
        nb_, cons_nb, ph_nb = neighbour
        mnb, _ = phasor.margins(cons_nb, ph_nb, M, 1e-5, 1e-7)
        got_nb = bool(nb_.is_feasible(A))
        out.probe("neighbouring_site_asked_in_between")
        if abs(mnb) >= 1e-9 * max(1.0, cons_nb[0][1]) and got_nb != (mnb >= 0):
            out.add("C06/network_vs_phasor", "%s: a second network alive in the same process (same station ids, other phase angles, its own feeder limit), asked in turns "
                    "with the first: it says %s, the phasor definition for ITS angles and limit says %s (margin %.3e A)" % (tag, got_nb, mnb >= 0, mnb))
            return
    res = {
        "network": bool(nw.is_feasible(A, False, kw.get("violation_tolerance"), kw.get("relative_tolerance"))),
        "interface": bool(iface.is_feasible(d, False, kw.get("violation_tolerance"), kw.get("relative_tolerance"))),
        "algorithm": bool(sut.algo_utils.infrastructure_constraints_feasible(A, infra, False, vt, rt)),
    }
    if not explicit and vt == 1e-5 and rt == 1e-7:
        # a caller that relies on the algorithm-side checker's documented default tolerances (as the sorted algorithms do)
        out.probe("algorithm_side_default_tolerances")
        res["algorithm_defaults"] = bool(sut.algo_utils.infrastructure_constraints_feasible(A, infra))
    if T == 1:
        out.probe("one_dim_vector")
        res["algorithm_1d"] = bool(sut.algo_utils.infrastructure_constraints_feasible(A[:, 0], infra, False, vt, rt))
    if not cons:
        for kk, v in res.items():
            if not v:
                out.add("C06/constraint_free_rejects", "%s: %s check rejects a schedule on a network without constraints" % (tag, kk))
        return
    scale = max(1.0, cons[where[0]][1])
    j = where[0]
    row = cons[j][0]
    mixed = any(c < 0 for c in row) and any(c > 0 for c in row) and len({phases[i] for i, c in enumerate(row) if c}) >= 2
    if rt * cons[j][1] > vt:
        out.probe("rel_tol_dominates")
    if abs(k) <= 2 and mixed:
        out.probe("probe_within_2tol_mixed_sign")
        out.nontrivial = True
    if abs(m) < 1e-9 * scale:
        out.inconclusive += 1
    else:
        want = m >= 0
        for kk, v in res.items():
            if v != want:
                out.add("C06/%s_vs_phasor" % kk, "%s: %s check says %s, phasor definition says %s (margin %.3e A on constraint %d, k=%s, vt=%g rt=%g, T=%d)"
                        % (tag, kk, v, want, m, j, k, vt, rt, T))
                return
    # a very long schedule (minute data of weeks or months) that is fine everywhere except in its last few periods
    rlg = sub(sc["seed"], "long_schedule", tag, T)
    if rlg.random() < 0.012 and not neg:
        TL = rlg.choice([1100, 4200, 17000, 70000, 2 ** 18 // N + 5, 2 ** 20 // N + 37])
        g_in = phasor.max_scale(cons, phases, [[row[0]] for row in D], vt, rt, -10)
        g_out = phasor.max_scale(cons, phases, [[row[0]] for row in D], vt, rt, 10)
        if g_in is not None and g_out is not None and g_in > 0:
            m_in, _ = phasor.margins(cons, phases, [[g_in * row[0]] for row in D], vt, rt)
            m_out, w_out = phasor.margins(cons, phases, [[g_out * row[0]] for row in D], vt, rt)
            sc_l = max(1.0, cons[w_out[0]][1])
            if m_in > 1e-9 * sc_l and m_out < -1e-9 * sc_l:
                tail = rlg.randint(1, 30)
                AL_ = np.empty((N, TL), dtype=float)
                for i_ in range(N):
                    AL_[i_, :] = g_in * D[i_][0]
                    AL_[i_, TL - tail:] = g_out * D[i_][0]
                out.probe("long_schedule_with_overloaded_tail")
                lres = {"network": bool(nw.is_feasible(AL_, False, kw.get("violation_tolerance"), kw.get("relative_tolerance"))),
                        "algorithm": bool(sut.algo_utils.infrastructure_constraints_feasible(AL_, infra, False, vt, rt))}
                if TL <= 70000:
                    lres["interface"] = bool(iface.is_feasible({ids[i_]: AL_[i_] for i_ in range(N)}, False, kw.get("violation_tolerance"), kw.get("relative_tolerance")))
                for kk, v in lres.items():
                    if v:
                        out.add("C06/%s_vs_phasor" % kk, "%s: %s check accepts a schedule of %d periods whose last %d periods exceed constraint %d by %.3e A "
                                "(all earlier periods are well inside)" % (tag, kk, TL, tail, w_out[0], -m_out))
                        return
    # the operator re-tunes the network's own tolerances (public attributes) between two questions; questions that name no
    # tolerance are answered with the values in force at that moment
    rtn = sub(sc["seed"], "retune", tag, T)
    if not explicit and rtn.random() < 0.15:
        vt2 = rtn.choice([x_ for x_ in (0.0, 1e-6, 1e-3, 0.5, 2.0) if x_ != vt])
        rt2 = rtn.choice([x_ for x_ in (0.0, 1e-6, 1e-3, 0.05) if x_ != rt])
        k2 = rtn.choice(KS)
        g2 = phasor.max_scale(cons, phases, D, vt2, rt2, k2)
        if g2 is not None:
            M2 = [[g2 * x for x in row] for row in D]
            m2, w2 = phasor.margins(cons, phases, M2, vt2, rt2)
            old_ = (nw.violation_tolerance, nw.relative_tolerance)
            try:
                nw.violation_tolerance, nw.relative_tolerance = vt2, rt2
                A2 = np.array(M2, dtype=float)
                res2 = {"network": bool(nw.is_feasible(A2)), "interface": bool(iface.is_feasible({ids[i]: list(M2[i]) for i in range(N)})),
                        "algorithm": bool(sut.algo_utils.infrastructure_constraints_feasible(A2, iface.infrastructure_info(), False, vt2, rt2))}
            finally:
                nw.violation_tolerance, nw.relative_tolerance = old_
            out.probe("tolerances_retuned_between_questions")
            if abs(m2) >= 1e-9 * max(1.0, cons[w2[0]][1]):
                for kk, v in res2.items():
                    if v != (m2 >= 0):
                        out.add("C06/%s_vs_phasor" % kk, "%s: after the network's tolerances were set to vt=%g rt=%g (were %g / %g): %s check says %s, phasor definition "
                                "says %s (margin %.3e A on constraint %d, k=%s)" % (tag, vt2, rt2, vt, rt, kk, v, m2 >= 0, m2, w2[0], k2))
                        return
    # the owner of an infrastructure description edits it in place (a what-if study: another limit, another coefficient, a
    # station moved to another phase) and asks the algorithm-side checker again about the same object
    rwi = sub(sc["seed"], "whatif", tag, T)
    if rwi.random() < 0.15:
        mine = iface.infrastructure_info()
        sut.algo_utils.infrastructure_constraints_feasible(A, mine, False, vt, rt)          # (first question, same object)
        cons3 = [(list(rowc), lim) for rowc, lim in cons]
        ph3 = list(phases)
        how3 = rwi.choice(["limit", "coefficient", "phase"])
        j3 = rwi.randrange(len(cons3))
        members3 = [i for i, c in enumerate(cons3[j3][0]) if c]
        if how3 == "limit":
            f3 = rwi.choice([0.5, 0.8, 1.5, 3.0])
            mine.constraint_limits[j3] = cons3[j3][1] * f3
            cons3[j3] = (cons3[j3][0], float(mine.constraint_limits[j3]))     # (read back: what the array holds, whatever its dtype)
        elif how3 == "coefficient" and members3:
            i3 = rwi.choice(members3)
            c3 = rwi.choice([-1.0, 2.0, 0.5, -0.25])
            mine.constraint_matrix[j3, i3] = c3
            cons3[j3][0][i3] = float(mine.constraint_matrix[j3, i3])
        elif members3:
            i3 = rwi.choice(members3)
            p3 = rwi.choice([x_ for x_ in (30.0, -90.0, 150.0, 0.0) if x_ != ph3[i3]])
            mine.phases[i3] = p3
            ph3[i3] = float(mine.phases[i3])
        g3 = phasor.max_scale(cons3, ph3, D, vt, rt, rwi.choice(KS))
        if g3 is not None:
            M3 = [[g3 * x for x in row] for row in D]
            m3, w3 = phasor.margins(cons3, ph3, M3, vt, rt)
            got3 = bool(sut.algo_utils.infrastructure_constraints_feasible(np.array(M3, dtype=float), mine, False, vt, rt))
            out.probe("infrastructure_description_edited_and_asked_again")
            if abs(m3) >= 1e-9 * max(1.0, cons3[w3[0]][1]) and got3 != (m3 >= 0):
                out.add("C06/algorithm_vs_phasor", "%s: the caller edited its own InfrastructureInfo in place (%s of constraint %d) after a first question and asked again: "
                        "algorithm-side check says %s, phasor definition on the edited description says %s (margin %.3e A)" % (tag, how3, j3, got3, m3 >= 0, m3))
                return
    # a schedule with a non-finite entry (0/0 or x/0 in a scheduler's arithmetic) at a station that takes part in a
    # constraint: its aggregate is not 'at most the limit plus tolerance', so no checker may call it feasible
    rn = sub(sc["seed"], "nonfinite", tag, T)
    if rn.random() < 0.25:
        members = sorted({i for rowc, _ in cons for i, c in enumerate(rowc) if c})
        if members:
            i = rn.choice(members)
            tcol = rn.randrange(T)
            bad = rn.choice([float("nan"), float("nan"), float("inf"), float("-inf")])
            AN = np.array(M, dtype=float)
            AN[i, tcol] = bad
            dn = {ids[k]: [float(x) for x in AN[k]] for k in range(N)}
            out.probe("non_finite_entry_probe")
            with np.errstate(all="ignore"):
                nres = {
                    "network": bool(nw.is_feasible(AN)), "interface": bool(iface.is_feasible(dn)),
                    "algorithm": bool(sut.algo_utils.infrastructure_constraints_feasible(AN, infra, False, vt, rt)),
                    "network_linear": bool(nw.is_feasible(AN, True)),
                    "algorithm_linear": bool(sut.algo_utils.infrastructure_constraints_feasible(AN, infra, True, vt, rt)),
                }
            for kk, v in nres.items():
                if v:
                    out.add("C06/non_finite_accepted", "%s: %s check calls a schedule with %r at station %s (member of a constraint) feasible"
                            % (tag, kk, bad, ids[i]))
                    return
    # two caller threads put questions to the same network at once (seeded interleaving of their steps): each gets the answer it
    # would get alone
    rth = sub(sc["seed"], "threads", tag, T)
    if rth.random() < 0.08:
        from ..threads import Interleaver
        B_ = np.array([[0.5 * x for x in row] for row in M], dtype=float)
        C_ = np.array([[1.7 * x + 0.3 for x in row] for row in M], dtype=float)
        fns = [lambda: bool(nw.is_feasible(C_)), lambda: bool(nw.is_feasible(B_)),
               lambda: bool(sut.algo_utils.infrastructure_constraints_feasible(A, infra, False, vt, rt))]
        alone = [f() for f in fns]
        res_, info_ = Interleaver(sub(sc["seed"], "interleave", tag, T), sut.in_repo).run(fns)
        out.probe("concurrent_callers")
        for (kind_, val_), alone_, nm_ in zip(res_, alone, ("network (heavier schedule)", "network (lighter schedule)", "algorithm-side")):
            if kind_ == "exc":
                from ..driver import classify_exception
                if classify_exception(val_) == "harness":
                    raise val_
                out.add("C06/concurrent_callers", "%s: three threads asking at once: %s: %s" % (tag, type(val_).__name__, str(val_)[:100]))
                return
            if val_ != alone_:
                out.add("C06/concurrent_callers", "%s: three threads asking at once (interleaving %s): the %s check answers %s, alone it answers %s"
                        % (tag, info_["order"][:30], nm_, val_, alone_))
                return
    # a slowly creeping multi-period schedule: column j is column 0 scaled by (1 + j*4e-6); column 0 sits half a tolerance inside
    # the most binding limit, the later columns are outside (each period is judged on its own, however little it differs
    # from its neighbour)
    rcp = sub(sc["seed"], "creep", tag, T)
    if rcp.random() < 0.2 and not neg:
        g0 = phasor.max_scale(cons, phases, [[row[0]] for row in D], vt, rt, -0.5)
        if g0 is not None and g0 > 0:
            Tc = rcp.choice([2, 3, 5])
            MC = [[g0 * row[0] * (1 + j_ * 4e-6) for j_ in range(Tc)] for row in D]
            mc, wc = phasor.margins(cons, phases, MC, vt, rt)
            m0, _ = phasor.margins(cons, phases, [[x[0]] for x in MC], vt, rt)
            scale_c = max(1.0, cons[wc[0]][1])
            if m0 > 1e-9 * scale_c and mc < -1e-9 * scale_c:
                out.probe("creeping_schedule_probe")
                AC = np.array(MC, dtype=float)
                dc = {ids[k]: list(MC[k]) for k in range(N)}
                cres = {"network": bool(nw.is_feasible(AC, False, kw.get("violation_tolerance"), kw.get("relative_tolerance"))),
                        "interface": bool(iface.is_feasible(dc, False, kw.get("violation_tolerance"), kw.get("relative_tolerance"))),
                        "algorithm": bool(sut.algo_utils.infrastructure_constraints_feasible(AC, infra, False, vt, rt))}
                for kk, v in cres.items():
                    if v:
                        out.add("C06/%s_vs_phasor" % kk, "%s: %s check accepts a %d-period schedule whose first period is feasible and whose later "
                                "periods creep over the limit (worst margin %.3e A)" % (tag, kk, Tc, mc))
                        return
    # linear relaxation: agreement + conservativeness (non-negative schedules)
    if not neg and r.random() < 0.6:
        out.probe("linear_probe")
        kl = r.choice(KS)
        # scale w.r.t. the abs-coefficient linearisation so that its verdict is well defined
        lin_at = []
        for rowc, lim in cons:
            for t in range(T):
                s = sum(abs(c) * D[i][t] for i, c in enumerate(rowc))
                if s > 1e-12:
                    lin_at.append((lim + kl * phasor.tol_of(lim, vt, rt)) / s)
        lin_at = [x for x in lin_at if x > 0]
        if not lin_at:
            return
        gl = min(lin_at)
        ML = [[gl * x for x in rowx] for rowx in D]
        AL = np.array(ML, dtype=float)
        dl = {ids[i]: list(ML[i]) for i in order}
        lres = {
            "network": bool(nw.is_feasible(AL, True, kw.get("violation_tolerance"), kw.get("relative_tolerance"))),
            "interface": bool(iface.is_feasible(dl, True, kw.get("violation_tolerance"), kw.get("relative_tolerance"))),
            "algorithm": bool(sut.algo_utils.infrastructure_constraints_feasible(AL, infra, True, vt, rt)),
        }
        m_lin = phasor.linear_margins(cons, ML, vt, rt)
        m_sum = min((lim + phasor.tol_of(lim, vt, rt)) - abs(sum(c * ML[i][t] for i, c in enumerate(rowc)))
                    for rowc, lim in cons for t in range(T))
        m_ph, _ = phasor.margins(cons, phases, ML, vt, rt)
        sc_ = max(1.0, max(l for _, l in cons))
        if min(abs(m_lin), abs(m_sum), abs(m_ph)) < 1e-9 * sc_:
            out.inconclusive += 1
            return
        if len(set(lres.values())) > 1:
            out.add("C06/linear_checkers_disagree", "%s: linear=True verdicts %s (abs-coefficient margin %.3e, phasor margin %.3e, T=%d)" % (tag, lres, m_lin, m_ph, T))
            return
        for kk, v in lres.items():
            if v and m_ph < 0:
                out.add("C06/linear_not_conservative", "%s: %s linear check accepts a non-negative schedule the phase-aware definition rejects (phasor margin %.3e A)" % (tag, kk, m_ph))
                return


def check(sc):
    state = {"n": 0}
    box = {}

    def setup(ctx, party):
        def post(party_, iface, rec, sched):
            if state["n"] >= 4 or world.attempt_precedes_intervention(sc, rec):
                return
            state["n"] += 1
            r = sub(sc["seed"], "probe", rec["t"], state["n"])
            cons_t = cons_at(sc, rec["t"])
            if any(rc["t"] <= rec["t"] for rc in sc.get("reconfig", ())):
                box["out"].probe("probe_after_reconfig")
            if "nb" not in state:
                state["nb"] = neighbour_of(sc) if sub(sc["seed"], "neighbour").random() < 0.3 else None
            probe_once(box["out"], sc, ctx.sim.network, iface, r, "t=%d" % rec["t"], cons_t, neighbour=state["nb"])
            if sc.get("exact") and cons_t and not box["out"].viol:
                probe_exact(box["out"], sc, ctx.sim.network, iface, sub(sc["seed"], "exact", rec["t"], state["n"]), "t=%d" % rec["t"], cons_t)
        ctx.post_hooks.append(post)

    # the Outcome must exist before the run (probes happen inside it)
    from ..engine import Outcome
    box["out"] = Outcome()
    tr = driver.run_world(sc, observe=0, setup=setup)
    out = base_outcome(tr, extra_sig=[state["n"], sc["network"]["violation_tolerance"], sc["network"]["relative_tolerance"]])
    pre = box["out"]
    out.viol = pre.viol
    out.probes = dict(out.probes, **pre.probes)
    out.nontrivial = pre.nontrivial
    out.inconclusive = pre.inconclusive
    cons = cons_of(sc)
    sorted_party = sc["party"]["kind"] in ("greedy", "rr")
    if not cons:
        out.probe("constraint_free_world")
        ok = completion(tr, out, "C06", required=False)
        if not ok and tr.exc_kind == "sut":
            out.aborted = False
            out.add("C06/constraint_free_unusable", "network without constraints under party %s: %s: %s"
                    % (sc["party"]["kind"], type(tr.exc).__name__, str(tr.exc)[:160]))
        elif ok and sorted_party:
            out.probe("constraint_free_sorted_completed")
    else:
        completion(tr, out, "C06", required=False)
    # executed pilot columns: the network-side verdict on what was applied equals the definition; a real algorithm's own
    # output must not be called infeasible by the simulator (the algorithm-side and network-side copies meet here)
    ids = [s["id"] for s in sc["network"]["stations"]]
    phases = [s["phase"] for s in sc["network"]["stations"]]
    vt, rt = sc["network"]["violation_tolerance"], sc["network"]["relative_tolerance"]
    nw = tr.sim.network
    final_cons = cons_at(sc, 10 ** 9)
    for p in tr.periods[:12]:
        if not cons or p["pilots"] is None:
            break
        if cons_at(sc, p["t"]) != final_cons:
            continue          # the network object at hand is the one after the last reconfiguration
        cons = final_cons
        if not cons:
            break             # (every limit was withdrawn during the run)
        col = [[x] for x in p["pilots"]]
        m, _ = phasor.margins(cons, phases, col, vt, rt)
        if abs(m) < 1e-9 * max(1.0, max(l for _, l in cons)):
            out.inconclusive += 1
            continue
        out.probe("executed_columns_checked")
        got = bool(nw.is_feasible(np.array(col, dtype=float)))
        if got != (m >= 0):
            out.add("C06/network_vs_phasor", "executed column t=%d: network says %s, definition margin %.3e" % (p["t"], got, m))
            break
    # a constraint whose limit is negative (a mis-entered rating, a derating formula gone below zero): |aggregate| <= limit + tol
    # cannot hold for any schedule, the idle one included - all three checkers have to say so
    rneg = sub(sc["seed"], "negative_limit")
    if rneg.random() < 0.06 and not out.viol:
        import datetime as _dt
        nwn = sut.ChargingNetwork()
        for nm_ in ("a", "b"):
            nwn.register_evse(sut.EVSE(nm_, max_rate=32), 208, rneg.choice([0, 30, -90]))
        lim_ = -rneg.choice([5.0, 0.5, 40.0])
        nwn.add_constraint(sut.Current(["a", "b"]), lim_, name="neg")
        nwn.add_constraint(sut.Current(["a"]), 100.0, name="pos")
        simn = sut.Simulator(nwn, sut.UncontrolledCharging(), sut.EventQueue(), _dt.datetime(2021, 1, 1), period=5, verbose=False)
        ifn = sut.Interface(simn)
        out.probe("negative_limit_probe")
        for vec_ in ([0.0, 0.0], [rneg.uniform(0, 3), 0.0], [abs(lim_), 0.0]):
            A_ = np.array([[vec_[0]], [vec_[1]]], dtype=float)
            verdicts = {"network": bool(nwn.is_feasible(A_)), "interface": bool(ifn.is_feasible({"a": [vec_[0]], "b": [vec_[1]]})),
                        "algorithm": bool(sut.algo_utils.infrastructure_constraints_feasible(A_, ifn.infrastructure_info()))}
            bad_ = [k_ for k_, v_ in verdicts.items() if v_]
            if bad_:
                out.add("C06/%s_vs_phasor" % bad_[0], "constraint with limit %r A: %s check calls schedule %s feasible (|aggregate| <= limit + tolerance "
                        "is impossible); verdicts %s" % (lim_, bad_[0], vec_, verdicts))
                break
    nwarn = sum(1 for c, msg in tr.warnings if "Invalid schedule provided" in msg)
    if nwarn:
        out.probe("invalid_schedule_warning_seen", nwarn)
        if sorted_party and vt >= 1e-5 and rt >= 1e-7 and sc["party"].get("estimator", "none") == "none":
            msg = next(msg for c, msg in tr.warnings if "Invalid schedule provided" in msg)
            out.add("C06/algorithm_output_rejected_by_network", "a sorted algorithm's own schedule was called infeasible by the simulator: %s" % msg[:160])
    return out
