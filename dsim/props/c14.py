"""C14 - battery models follow their documented charging laws (noise off).

No schedule/fault dimension of its own: a pure function of (state, pilot, V, T). Checked as a per-call reference-model
monitor on the battery bench (sequences of calls on an evolving state) and on every charge() executed inside whole
simulated runs (class-level tap on EV.charge)."""
import copy
from .. import sut, world, driver
from ..engine import Outcome
from ..rng import digest, sub
from ..shrink import ops_candidates, world_candidates
from ..bench_battery import gen_bench, run_bench
from ..models.battery import ideal_power, two_stage_soc, two_stage_soc_numeric
from ..worldprop import base_outcome, completion

ID = "C14"
RUNS = {"quick": 25000, "thorough": 600000}
BUDGET = {"quick": 45, "thorough": 780}
CHUNK = 600
DET_EVERY = 400
RULE = ("4 of 5 runs: battery bench without noise (ideal, two-stage continuous, two-stage stepwise), every call compared "
        "with the closed-form law (and, on a sample, with an independent RK4 integration), plus on deep copies of the "
        "pre-state: T = T/2 twice, monotone in pilot and in T, zero pilot, reset; 1 of 5: every Battery.charge executed "
        "inside a whole simulation; non-trivial = a call crosses the (pilot-dependent) transition SoC; distinct = distinct "
        "(class, calc, crossing pattern, pilot regime, length)")
PROBES = ["calculation_method_switched", "charged_at_another_voltage", "crossing_call", "above_transition_call", "below_transition_call", "pilot_capped_by_max", "fill_capped",
          "rk4_crosscheck", "half_twice", "monotone_pilot", "monotone_T", "zero_pilot", "reset", "in_sim_calls", "json_restart"]
FAULT_DIMENSION = "none - state distribution only (pure function of state and arguments)"
REAL_VS_STUB = "real: Battery, Linear2StageBattery (+ EV/EVSE/Simulator in the in-simulation layer); ours: closed-form / RK4 reference"
ASSUMPTIONS = ["stepwise calculation is documented as an approximation: only monotonicity, zero-pilot and reset clauses apply to it",
               "agreement tolerance 1e-6*max(1,dsoc)+1e-9 on SoC (RK4 cross-check 1e-5)"]
P_WORLD = world.profile(noise=0.0, battery={"l2c": 3, "l2s": 1, "ideal": 2}, party={"scripted": 3, "uncontrolled": 3, "greedy": 2})


def candidates(sc):
    if "ops" in sc:
        return ops_candidates(sc, "ops")
    return world_candidates(sc)


def gen(rs, tier):
    if rs % 5 == 0:
        return world.gen_world(rs, P_WORLD)
    return gen_bench(rs, False, tier)


def law_check(out, where, b, pre_charge, pilot, V, period, rate, post_charge):
    """Compare one executed call with the documented law. Returns True if the call crossed the transition."""
    cap, mp = b["capacity"], b["max_power"]
    crossed = False
    if b["type"] == "Battery":
        want = ideal_power(pilot, V, period, cap, pre_charge, mp)
        got = rate * V / 1000.0
        if abs(got - want) > 1e-9 * max(1.0, abs(want)):
            out.add("C14/ideal_law", "%s: charge(%r,%r,%r) at %r/%r kWh drew %r kW, law %r" % (where, pilot, V, period, pre_charge, cap, got, want))
        if want == (cap - pre_charge) / (period / 60.0):
            out.probe("fill_capped")
        # "charges at" that power: the stored charge rises by exactly power x time
        e_ = want * period / 60.0
        if abs((post_charge - pre_charge) - e_) > 1e-8 * max(1.0, cap):
            out.add("C14/ideal_law", "%s: charge(%r,%r,%r) at %r/%r kWh: law power %r kW for %r min is %r kWh, stored charge rose %r"
                    % (where, pilot, V, period, pre_charge, cap, want, period, e_, post_charge - pre_charge))
    elif b.get("calc", "continuous") == "continuous":
        ts = b.get("transition_soc", 0.8)
        soc = pre_charge / cap
        want = two_stage_soc(soc, pilot, V, period, cap, mp, ts)
        got = post_charge / cap
        tol = 1e-6 * max(1.0, abs(want - soc)) * 1.0 + 1e-9
        tol = 1e-6 * abs(want - soc) + 1e-9
        if abs(got - want) > tol:
            out.add("C14/two_stage_law", "%s: charge(%r,%r,%r) from soc %.9f (ts=%r, cap=%r, max=%r): soc -> %.12f, law %.12f"
                    % (where, pilot, V, period, soc, ts, cap, mp, got, want))
        e = rate * V / 1000.0 * period / 60.0
        if abs(e - (post_charge - pre_charge)) > 1e-8 * max(1.0, cap):
            out.add("C14/rate_vs_charge", "%s: returned rate gives %r kWh, stored charge rose %r" % (where, e, post_charge - pre_charge))
        hours = period / 60.0
        p = min(pilot * V / 1000.0, mp) * hours / cap
        m = mp * hours / cap
        if p > 0:
            s_star = 1.0 - (p / m) * (1.0 - ts)
            if soc < s_star <= want:
                crossed = True
                out.probe("crossing_call")
            elif soc >= s_star:
                out.probe("above_transition_call")
            else:
                out.probe("below_transition_call")
            if pilot * V / 1000.0 > mp:
                out.probe("pilot_capped_by_max")
    return crossed


def check(sc):
    if "ops" not in sc:
        return check_world(sc)
    out = Outcome()
    b = dict(sc["battery"])          # (a copy: the calculation method may be switched during the sequence)
    cap, mp, V = b["capacity"], b["max_power"], sc["voltage"]
    ts = b.get("transition_soc")
    cont = b["type"] == "Linear2Stage" and b.get("calc", "continuous") == "continuous"
    log = []
    state = {"crossed": 0, "n": 0}
    r = sub(sc["seed"], "meta")
    init_state = [None]

    def delivered(batt, pilot, period):
        c0 = batt._current_charge
        batt.charge(pilot, V, period)
        return batt._current_charge - c0

    def on_call(i, op, pre, post, rate, batt):
        if rate is None and op["op"] in ("reset_to", "reset_refused"):
            return
        if rate is None and op["op"] == "switch_calc":
            nonlocal cont
            if b["type"] == "Linear2Stage":
                b["calc"] = "stepwise" if b.get("calc", "continuous") == "continuous" else "continuous"
                cont = b["calc"] == "continuous"
                out.probe("calculation_method_switched")
                if post != pre:
                    out.add("C14/switch_changed_state", "call %d: switching charge_calculation changed (charge, power) %s -> %s" % (i, pre, post))
            return
        if rate is None and op["op"] == "roundtrip":
            out.probe("json_restart")
            if post != pre:
                out.add("C14/json_restart_state", "call %d: (charge, power) %s -> %s across a JSON save/load" % (i, pre, post))
            return
        if rate is None:
            out.probe("reset")
            if post[0] != b["init"] or post[1] != 0:
                out.add("C14/reset", "call %d: reset() left charge %r (initial %r), power %r" % (i, post[0], b["init"], post[1]))
            return
        nonlocal V
        V = op.get("voltage", sc["voltage"])
        if "voltage" in op:
            out.probe("charged_at_another_voltage")
        pilot, period = op["pilot"], op["period"]
        log.append((i, repr(rate), repr(post[0])))
        if law_check(out, "call %d" % i, b, pre[0], pilot, V, period, rate, post[0]):
            state["crossed"] += 1
        stiff = cont and (mp * (period / 60.0) / cap) / (1.0 - ts) / 1500.0 > 0.2
        if cont and not stiff and state["n"] < 6 and pilot > 0 and r.random() < 0.3:
            state["n"] += 1
            out.probe("rk4_crosscheck")
            num = two_stage_soc_numeric(pre[0] / cap, pilot, V, period, cap, mp, ts, steps=1500)
            if abs(num - post[0] / cap) > 1e-5 * max(1e-3, abs(num - pre[0] / cap)) + 1e-8:
                out.add("C14/two_stage_vs_rk4", "call %d: soc -> %.12f, RK4 of the documented ODE %.12f" % (i, post[0] / cap, num))
        if pilot == 0:
            out.probe("zero_pilot")
            if abs(rate) > 1e-9 or abs(post[0] - pre[0]) > 1e-9 * max(1.0, cap) or abs(post[1]) > 1e-9:
                out.add("C14/zero_pilot", "call %d: pilot 0 gave rate %r, charge %r -> %r, power %r" % (i, rate, pre[0], post[0], post[1]))
        # metamorphic clauses on deep copies of the pre-state (restore it first)
        if r.random() < 0.25:
            base = copy.deepcopy(batt)
            base._current_charge = pre[0]
            base._current_charging_power = pre[1]
            full = post[0] - pre[0]
            tol = 1e-9 * max(1.0, cap)
            if cont:
                h = copy.deepcopy(base)
                d2 = delivered(h, pilot, period / 2.0) + delivered(h, pilot, period / 2.0)
                out.probe("half_twice")
                if abs(d2 - full) > 1e-9 * max(1.0, cap) + 1e-7 * abs(full):
                    out.add("C14/half_twice", "call %d: T=%r delivers %r kWh, T/2 twice %r (pilot %r, soc %.6f)" % (i, period, full, d2, pilot, pre[0] / cap))
            hp = copy.deepcopy(base)
            dp = delivered(hp, pilot * 1.5, period)
            out.probe("monotone_pilot")
            if dp < full - tol:
                out.add("C14/monotone_pilot", "call %d: pilot %r delivers %r kWh but 1.5x pilot delivers %r" % (i, pilot, full, dp))
            ht = copy.deepcopy(base)
            dt = delivered(ht, pilot, period * 2.0)
            out.probe("monotone_T")
            if dt < full - tol:
                out.add("C14/monotone_T", "call %d: T=%r delivers %r kWh but 2T delivers %r" % (i, period, full, dt))
    try:
        run_bench(sc, on_call)
        # reset restores the initial state (as seen through the public serial form)
        import warnings
        with warnings.catch_warnings():
            warnings.simplefilter("ignore")
            from ..build import build_battery
            fresh = build_battery(sc["battery"])
            used = build_battery(sc["battery"])
            for op in sc["ops"][:5]:
                if op["op"] == "charge":
                    used.charge(op["pilot"], op.get("voltage", sc["voltage"]), op["period"])
            used.reset()
            a1 = fresh._to_dict({})[0]
            a2 = used._to_dict({})[0]
            if a1 != a2:
                out.add("C14/reset_state", "after reset() %s, freshly built %s" % (a2, a1))
    except Exception as e:
        from ..driver import classify_exception
        if classify_exception(e) == "harness":
            raise
        out.add("C14/exception:" + type(e).__name__, str(e)[:200])
    out.nontrivial = state["crossed"] > 0
    out.sig = digest((b["type"], b.get("calc"), state["crossed"], len(sc["ops"]), round(ts or 0, 2), sc["voltage"],
                      round(b["init"] / b["capacity"], 1), sc["ops"][0].get("period") if sc["ops"] else 0))
    out.digest = digest(log)
    out.calls = len(sc["ops"])
    return out


def check_world(sc):
    """Monitor every EV.charge executed in a whole simulation against the law of its battery."""
    calls = []
    EVc = sut.EV
    orig = EVc.charge

    def tapped(self, pilot, voltage, period):
        pre = float(self._battery._current_charge)
        rate = orig(self, pilot, voltage, period)
        calls.append((self.session_id, pre, float(pilot), float(voltage), float(period), float(rate), float(self._battery._current_charge)))
        return rate
    EVc.charge = tapped
    try:
        tr = driver.run_world(sc, observe=0)
    finally:
        EVc.charge = orig
    out = base_outcome(tr)
    completion(tr, out, "C14", required=False)
    spec = {s["session_id"]: s["battery"] for s in sc["sessions"]}
    crossed = 0
    for sid, pre, pilot, V, period, rate, post in calls:
        b = spec[sid]
        if b.get("noise"):
            continue
        if pilot < 0:
            continue
        if law_check(out, "session %s" % sid, b, pre, pilot, V, period, rate, post):
            crossed += 1
        if out.viol:
            break
    out.probe("in_sim_calls", len(calls))
    out.nontrivial = crossed > 0
    return out
