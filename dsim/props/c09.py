"""C09 - interrupted, serialised and resumed runs equal the uninterrupted run (crash / restart, durable state = JSON)."""
import copy
from .. import world, driver, sut
from ..worldprop import base_outcome, completion, REAL_VS_STUB  # noqa

np = sut.np
ID = "C09"
RUNS = {"quick": 7000, "thorough": 100000}
BUDGET = {"quick": 50, "thorough": 800}
RULE = ("worlds of every party / EVSE / battery class with 1-3 injected scheduler crashes, each resumed by rerun, "
        "to_json()->str, to_json(StringIO) or to_json(file) + from_json + update_scheduler; twin run without crashes is "
        "the reference; non-trivial = crash with >=1 connected partially charged EV and >=1 pending event; distinct = "
        "history signature incl. (crash period, resume mode)")
PROBES = ["resume:rerun", "resume:json_str", "resume:json_buf", "resume:json_file", "resume:json_io_fault", "resume:json_handle", "resume:json_twice", "crash_last_period",
          "crash_timer_pending", "double_crash_same_period", "crash_before_first_event", "crash_after_inner",
          "pending_plugin_at_crash", "pending_recompute_at_crash", "schedule_history_on", "noisy_battery",
          "rampdown_estimator_json_resume", "uninterrupted_crash_after_inner", "mutate_then_crash", "two_sessions_share_an_id", "subclass_defined_again_under_the_same_name"]
FAULT_DIMENSION = "scheduler crash at arbitrary calls (optionally after scribbling over everything it was handed) x 8 resume modes (only JSON survives in 7 of them; one of them with a disk that fills up during the first two save attempts, a missing directory, an overwrite of a longer file and a load from an open handle; one through the caller's open handles; one checkpoint of a checkpoint); noise tape continues across restarts"
ASSUMPTIONS = ["signals is None or JSON-able (a tariff object is documented as not serialised)",
               "start is a naive datetime (tzinfo is not part of the serial form)",
               "estimator state lives in the scheduler, which is not serialised: with SimpleRampdown only crashes before the algorithm ran are injected",
               "a save that FAILED (short write + ENOSPC) is survived and repeated; loading a torn file is not modelled (the property promises nothing about it)"]

PROFILE = world.profile(interrupts=0.15, aware_start=0.2, faults={"crash": 1.8, "mutate_crash": 0.3}, resume_modes=["rerun", "json_str", "json_buf", "json_file", "json_str", "json_buf", "json_file", "json_pathlike", "rerun",
                                                                                                              "json_io_fault", "json_io_fault", "json_handle", "json_twice"],
                        signals={"none": 2, "dict": 1}, estimator={"none": 3, "stub": 1, "rampdown": 2}, uninterrupted=0.4, extra_recompute=0.6,
                        custom_events=0.15,
                        party={"scripted": 4, "uncontrolled": 2, "greedy": 3, "rr": 1}, noise=0.35)


def gen(rs, tier):
    P = PROFILE
    if tier == "thorough" and rs % 12 == 0:
        P = dict(P, stations=(4, 10), horizon=(20, 80), sessions_cap=24)
    sc = world.gen_world(rs, P)
    rsb = world.sub(rs, "shared_battery")
    if rsb.random() < 0.08 and not sc.get("second_life"):
        pairs_ = [(a_, b_) for a_ in sc["sessions"] for b_ in sc["sessions"] if a_["departure"] <= b_["arrival"] and a_ is not b_]
        if pairs_:
            a_, b_ = rsb.choice(pairs_)
            b_["battery"] = dict(a_["battery"])
            a_["battery_of"] = b_["battery_of"] = "car-%s" % a_["session_id"]
            sc.pop("refill", None)     # (an EV object kept outside the simulator cannot share a battery with one inside a reloaded simulator)
    r = world.sub(rs, "dupid")
    if r.random() < 0.1 and len(sc["sessions"]) >= 2:
        # the same vehicle charges twice (ids taken from a vehicle tag): two sessions share a session id, on different stations
        # or one after the other on the same station
        a_, b_ = r.sample(sc["sessions"], 2)
        b_["session_id"] = a_["session_id"]
        sc["dup_session_id"] = a_["session_id"]
        if sc["party"].get("estimator") in ("stub", "rampdown"):
            sc["party"]["estimator"] = "none"
    rdef = world.sub(rs, "defined_again")
    ideal_ = [s_ for s_ in sc["sessions"] if s_["battery"]["type"] == "Battery"]
    if ideal_ and rdef.random() < 0.08 and not sc.get("second_life"):
        for s_ in ideal_:
            s_["battery"]["sub"] = True
        sc["battery_class_defined_again"] = True
    if sc["party"].get("estimator") == "rampdown":
        # SimpleRampdown keeps per-session state in the scheduler (not serialised, by design): only crashes BEFORE the
        # algorithm ran leave that state equal to the uninterrupted run's
        for f in sc["faults"]:
            if f["kind"] == "crash":
                f["when"] = "before"
        sc["faults"] = [f for f in sc["faults"] if f["kind"] != "mutate_crash"]
    return sc


def after_load(ctx, old, new, info):
    """Structural checks on the freshly loaded simulator (before it continues)."""
    probs = []
    q = new.event_queue.queue
    unplug_evs = [e.ev for _, e in q if e.event_type == "Unplug"]
    plug_evs = [e.ev for _, e in q if e.event_type == "Plugin"]
    for s in new.network.station_ids:
        ev = new.network.get_ev(s)
        if ev is None:
            continue
        if new.ev_history.get(ev.session_id) is not ev and not ctx.sc.get("dup_session_id"):
            probs.append("EV %s at station %s is not the object in ev_history" % (ev.session_id, s))
        n = sum(1 for x in unplug_evs if x is ev)
        if n != 1:
            probs.append("EV %s at station %s is the .ev of %d pending UnplugEvents" % (ev.session_id, s, n))
    if len({id(x) for x in plug_evs}) != len(plug_evs):
        probs.append("pending PluginEvents share an EV object")
    hist_ev = {}
    for e in new.event_history:
        ev = getattr(e, "ev", None)
        if ev is not None:
            if hist_ev.setdefault(ev.session_id, ev) is not ev and not ctx.sc.get("dup_session_id"):
                probs.append("event_history holds two EV objects for session %s" % ev.session_id)
            if ev.session_id in new.ev_history and new.ev_history[ev.session_id] is not ev and not ctx.sc.get("dup_session_id"):
                probs.append("event_history EV %s is not the ev_history object" % ev.session_id)
    # queue still pops in (timestamp, precedence) order: compare pop order of a copy with the old queue's
    import heapq
    def pops(qq):
        h = list(qq)
        out = []
        while h:
            ts, e = heapq.heappop(h)
            out.append((ts, e.precedence))
        return out
    a, b = pops(old.event_queue.queue), pops(q)
    if a != b or b != sorted(b):
        probs.append("loaded queue pops %s, original pops %s" % (b[:8], a[:8]))
    for k in ("max_recompute", "_resolve", "_last_schedule_update", "period"):
        if getattr(new, k) != getattr(old, k):
            probs.append("attribute %s: %r -> %r" % (k, getattr(old, k), getattr(new, k)))
    if (old.schedule_history is None) != (new.schedule_history is None):
        probs.append("schedule_history presence changed")
    elif old.schedule_history is not None:
        if sorted(old.schedule_history.keys(), key=repr) != sorted(new.schedule_history.keys(), key=repr):
            probs.append("schedule_history keys %s -> %s" % (sorted(old.schedule_history, key=repr), sorted(new.schedule_history, key=repr)))
    if new.start != old.start:
        probs.append("start %s -> %s" % (old.start, new.start))
    info["problems"] = probs


def _second_definition():
    """An earlier study in this process defined a Battery subclass, saved and loaded an object of it; the present study defines a class
    of the SAME name in the same module (a notebook cell run again with an edit: an 'eco mode' taking half the offered current).
    Checkpoints of the present study must be rebuilt with the present definition. Returns the function that undoes the rebinding."""
    from .. import build as B
    first = B.LoggingBattery
    ev0 = sut.EV(0, 5, 1.0, "X", "earlier-study", first(10.0, 1.0, 5.0))       # (inside an EV: nested objects are located by their recorded class path)
    sut.EV.from_json(ev0.to_json())

    class LoggingBattery(sut.Battery):
        def charge(self, pilot, voltage, period):
            return super().charge(pilot * 0.5, voltage, period)

        def reset(self, init_charge=None):
            return super().reset(init_charge)
    LoggingBattery.__module__ = first.__module__
    LoggingBattery.__qualname__ = "LoggingBattery"
    B.LoggingBattery = LoggingBattery
    return lambda: setattr(B, "LoggingBattery", first)


def check(sc):
    undo = _second_definition() if sc.get("battery_class_defined_again") else None
    try:
        out = _check(sc)
    finally:
        if undo is not None:
            undo()
    if undo is not None:
        out.probe("subclass_defined_again_under_the_same_name")
    return out


def _check(sc):
    tr = driver.run_world(sc, observe=0, after_load=after_load)
    crashes = [c for c in tr.calls if c.get("crashed")]
    out = base_outcome(tr, extra_sig=[(c["t"], r["mode"]) for c, r in zip(crashes, tr.resumes)])
    lt = world.last_event_time(sc)
    ev = world.event_times(sc)
    for r in tr.resumes:
        out.probe("resume:" + r["mode"])
    out.probe("crash_last_period", sum(1 for r in tr.resumes if r["t"] == lt))
    out.probe("crash_before_first_event", sum(1 for r in tr.resumes if r["t"] < min(ev)))
    out.probe("crash_timer_pending", sum(1 for r in tr.resumes if r["t"] not in ev))
    ts = [r["t"] for r in tr.resumes]
    out.probe("double_crash_same_period", len(ts) - len(set(ts)))
    out.probe("crash_after_inner", sum(1 for f in sc["faults"] if f.get("when") == "after"))
    out.probe("schedule_history_on", 1 if sc["sim"]["store_schedule_history"] and tr.resumes else 0)
    out.probe("noisy_battery", 1 if tr.noise_draws and tr.resumes else 0)
    out.probe("mutate_then_crash", tr.fault_counts.get("mutate_crash", 0))
    out.probe("two_sessions_share_an_id", 1 if sc.get("dup_session_id") and tr.resumes else 0)
    out.probe("rampdown_estimator_json_resume", sum(1 for r in tr.resumes if r["mode"] != "rerun") if sc["party"].get("estimator") == "rampdown" else 0)
    out.probe("uninterrupted_crash_after_inner", sum(1 for f in sc["faults"] if f.get("when") == "after") if sc["party"].get("uninterrupted") else 0)
    nontriv = False
    by_t = {p["t"]: p for p in tr.periods}
    for r in tr.resumes:
        t = r["t"]
        pend_plug = any(s["arrival"] > t for s in sc["sessions"])
        pend_rec = any(e["t"] > t for e in sc["extra_events"])
        out.probe("pending_plugin_at_crash", 1 if pend_plug else 0)
        out.probe("pending_recompute_at_crash", 1 if pend_rec else 0)
        prev = by_t.get(t - 1)
        partly = prev is not None and any(v[0] is not None and v[2] and v[2] > 0 for v in prev["st"].values())
        if partly and (pend_plug or pend_rec or any(s["departure"] > t for s in sc["sessions"])):
            nontriv = True
    out.nontrivial = nontriv
    if tr.terminal == "json":
        out.add("C09/json_roundtrip_failed", "%s: %s" % (type(tr.exc).__name__, str(tr.exc)[:200]))
        return out
    if getattr(tr.ctx, "io_fault_changed_state", False):
        out.add("C09/failed_save_changed_state", "a to_json() that failed (disk full / missing directory) left the simulator in another state")
    if getattr(tr.ctx, "handle_closed", False):
        out.add("C09/caller_handle_closed", "to_json(open handle) closed the caller's handle")
    ok = completion(tr, out, "C09", required=True)
    for r in tr.resumes:
        if r["mode"] != "rerun":
            if r.get("digest_pre") != r.get("digest_post"):
                out.add("C09/loaded_state_differs", "state digest changed across %s at period %d" % (r["mode"], r["t"]))
            for pr in r.get("problems", []):
                out.add("C09/loaded_structure", "after %s at period %d: %s" % (r["mode"], r["t"], pr))
    if not ok or not tr.resumes:
        return out
    # reference: the same world without crash faults
    sc2 = copy.deepcopy(sc)
    sc2["faults"] = [f for f in sc2["faults"] if f["kind"] not in ("crash", "mutate_crash")]
    ref = driver.run_world(sc2, observe=0, snapshot=False)
    if ref.exc is not None:
        out.aborted = True
        out.abort_reason = "reference:" + type(ref.exc).__name__
        return out
    a, b = ref.sim, tr.sim
    if a.iteration != b.iteration:
        out.add("C09/iteration", "resumed run ended at iteration %d, uninterrupted at %d" % (b.iteration, a.iteration))
        return out
    n = a.iteration
    if not np.array_equal(a.pilot_signals[:, :n], b.pilot_signals[:, :n]):
        d = np.argwhere(a.pilot_signals[:, :n] != b.pilot_signals[:, :n])[0]
        out.add("C09/pilots", "pilot[%d,%d] resumed %r uninterrupted %r" % (d[0], d[1], b.pilot_signals[d[0], d[1]], a.pilot_signals[d[0], d[1]]))
    if not np.array_equal(a.charging_rates[:, :n], b.charging_rates[:, :n]):
        d = np.argwhere(a.charging_rates[:, :n] != b.charging_rates[:, :n])[0]
        out.add("C09/rates", "rate[%d,%d] resumed %r uninterrupted %r" % (d[0], d[1], b.charging_rates[d[0], d[1]], a.charging_rates[d[0], d[1]]))
    ea = {k: v.energy_delivered for k, v in a.ev_history.items()}
    eb = {k: v.energy_delivered for k, v in b.ev_history.items()}
    if ea != eb:
        out.add("C09/energies", "resumed %s uninterrupted %s" % (sorted(eb.items(), key=repr)[:6], sorted(ea.items(), key=repr)[:6]))
    if a.peak != b.peak:
        out.add("C09/peak", "resumed %r uninterrupted %r" % (b.peak, a.peak))
    ha = sorted((e.timestamp, e.precedence, str(getattr(getattr(e, "ev", None), "session_id", None))) for e in a.event_history)
    hb = sorted((e.timestamp, e.precedence, str(getattr(getattr(e, "ev", None), "session_id", None))) for e in b.event_history)
    if ha != hb:
        out.add("C09/event_history", "resumed %s uninterrupted %s" % (hb[:10], ha[:10]))
    xa = [(e.timestamp, e.event_type, str(getattr(getattr(e, "ev", None), "session_id", None))) for e in a.event_history]
    xb = [(e.timestamp, e.event_type, str(getattr(getattr(e, "ev", None), "session_id", None))) for e in b.event_history]
    if ha == hb and xa != xb:
        i_ = next(i for i in range(len(xa)) if xa[i] != xb[i])
        out.add("C09/event_history_sequence", "same events, different order from position %d: resumed %s, uninterrupted %s (the queue's heap "
                "layout is part of the saved state, so ties must pop alike)" % (i_, xb[i_:i_ + 4], xa[i_:i_ + 4]))
    if list(a.ev_history.keys()) != list(b.ev_history.keys()):
        out.add("C09/ev_history_order", "session history order: resumed %s, uninterrupted %s" % (list(b.ev_history)[:8], list(a.ev_history)[:8]))
    kb = [(e.timestamp, e.precedence) for e in b.event_history]
    if kb != sorted(kb):
        out.add("C09/event_history_order", str(kb[:20]))
    if (a.schedule_history is None) != (b.schedule_history is None):
        out.add("C09/schedule_history", "presence differs")
    elif a.schedule_history is not None:
        na = {int(k): {s: [float(x) for x in v] for s, v in d.items()} for k, d in a.schedule_history.items()}
        nb = {int(k): {s: [float(x) for x in v] for s, v in d.items()} for k, d in b.schedule_history.items()}
        if na != nb:
            out.add("C09/schedule_history", "keys resumed %s uninterrupted %s" % (sorted(nb, key=repr)[:12], sorted(na, key=repr)[:12]))
    # shared-object clause at the end as well
    for sid, ev_ in ({} if sc.get("dup_session_id") else b.ev_history).items():
        for e in b.event_history:
            x = getattr(e, "ev", None)
            if x is not None and x.session_id == sid and x is not ev_:
                out.add("C09/ev_not_shared", "session %s: event_history and ev_history hold different objects" % sid)
                break
    return out
