#!/bin/bash
# selftest/seedsweep.sh <first-seed> <last-seed> [tier] [IDs...]: every check under many VERIF_SEED values on the unchanged tree.
# Any exit != 0 is either a genuine defect or a false alarm and must be triaged. Evidence/replays go to scratch dirs.
cd "$(dirname "$0")/.."
A=$1; B=$2; TIER=${3:-quick}; shift 3 2>/dev/null
IDS=("$@"); [ ${#IDS[@]} -eq 0 ] && IDS=(C01 C02 C03 C04 C05 C06 C07 C08 C09 C10 C11 C12 C13 C14 C15 C16 C17 C18 C19 C20)
OUT=${SWEEP_OUT:-/tmp/acn-sweep.$$}; mkdir -p $OUT/replays
bad=0
for s in $(seq $A $B); do for id in "${IDS[@]}"; do
  VERIF_SEED=$s VERIF_EVIDENCE_DIR=$OUT/ev VERIF_REPLAY_DIR=$OUT/replays ./check $id --tier $TIER > $OUT/$id.$s.log 2>&1; rc=$?
  echo "seed=$s $id exit=$rc $(grep -c '^VIOLATION' $OUT/$id.$s.log) $(grep "^$id tier=" $OUT/$id.$s.log | sed 's/.*runs=\([0-9]*\).*wall=\(.*\)/runs=\1 wall=\2/')"
  if [ $rc -ne 0 ]; then bad=1; grep -E '^(VIOLATION|HARNESS)' $OUT/$id.$s.log | cut -c1-400; fi
done; done
echo "seedsweep: seeds $A..$B tier=$TIER bad=$bad"
exit $bad
