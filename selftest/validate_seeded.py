#!/venv/bin/python
"""selftest/validate_seeded.py <src-dir> [--props C01,C05] [--tier quick] [--keep]

Validate one sub-agent-produced seeded change (patch.diff + demo.py + notes.md in <src-dir>, named <PROP>-<x>) in a
scratch worktree of /repo HEAD (outside /repo and /verif):
  1. demo exits 0 on the unchanged tree            2. patch applies
  3. the repo's test suite still passes (386)       4. demo exits 1 with the patch
  5. our check(s) for the property (and optional others) report VIOLATION with the patch (VERIF_REPO=<worktree>)
and store the result as /verif/seeded/<name>/{patch.diff,demo.py,notes.md,meta.json}. The worktree is removed.
"""
import json, os, re, shutil, subprocess, sys, time

VD = os.environ.get("VERIF_DIR", "/verif")   # a frozen copy of /verif measures first contact

def sh(cmd, **kw):
    p = subprocess.run(cmd, shell=True, capture_output=True, text=True, **kw)
    return p.returncode, p.stdout + p.stderr

def main():
    src = os.path.abspath(sys.argv[1])
    name = os.path.basename(src.rstrip("/"))
    prop = name.split("-")[0]
    props = [prop]
    tier = "quick"
    args = sys.argv[2:]
    if "--props" in args:
        props = args[args.index("--props") + 1].split(",")
    if "--tier" in args:
        tier = args[args.index("--tier") + 1]
    skip_suite = "--skip-suite" in args
    wt = "/tmp/acn-sv.%d" % os.getpid()
    res = {"name": name, "property": prop, "validated_at": time.strftime("%Y-%m-%dT%H:%M:%SZ", time.gmtime()),
           "repo_head": sh("git -C /repo rev-parse --short HEAD")[1].strip()}
    rc, o = sh("git -C /repo worktree add -q --detach %s HEAD" % wt)
    if rc:
        print(o); return 3
    try:
        env = dict(os.environ, PYTHONPATH=wt, PYTHONHASHSEED="0", PYTHONDONTWRITEBYTECODE="1")
        demo = os.path.join(src, "demo.py")
        rc0, o0 = sh("cd %s && timeout 600 /venv/bin/python %s" % (wt, demo), env=env)
        res["demo_exit_unchanged"] = rc0
        rc, o = sh("git -C %s apply %s" % (wt, os.path.join(src, "patch.diff")))
        res["patch_applies"] = rc == 0
        if rc:
            print("patch does not apply:", o)
        else:
            if not skip_suite:
                rc, o = sh("cd %s && timeout 1500 /venv/bin/python -m pytest -q -p no:cacheprovider --timeout=900 "
                           "--deselect tests/test_integration.py::TestIntegration 2>&1 | tail -3" % wt, env=dict(os.environ, PYTHONDONTWRITEBYTECODE="1"))
                m = re.search(r"(\d+) passed", o)
                res["suite_passed"] = int(m.group(1)) if m else 0
                res["suite_failed"] = int((re.search(r"(\d+) failed", o) or [0, 0])[1]) + int((re.search(r"(\d+) error", o) or [0, 0])[1])
                res["suite_tail"] = o.strip().splitlines()[-1] if o.strip() else ""
            rc1, o1 = sh("cd %s && timeout 600 /venv/bin/python %s" % (wt, demo), env=env)
            res["demo_exit_patched"] = rc1
            res["demo_output_patched"] = o1.strip()[-600:]
            res["checks"] = {}
            for p in props:
                evd = "/tmp/acn-sv-ev.%d" % os.getpid()
                rpd = "/tmp/acn-sv-rp.%d" % os.getpid()
                t0 = time.time()
                rc2, o2 = sh("cd %s && VERIF_REPO=%s VERIF_EVIDENCE_DIR=%s VERIF_REPLAY_DIR=%s ./check %s --tier %s" % (VD, wt, evd, rpd, p, tier))
                viol = [l for l in o2.splitlines() if l.startswith("VIOLATION")]
                entry = {"exit": rc2, "wall_s": round(time.time() - t0, 1), "violation_lines": [v[:400] for v in viol[:3]],
                         "tier": tier, "summary": [l for l in o2.splitlines() if l.startswith(p + " tier=")][:1]}
                # replay of the first replay file in a fresh interpreter must reproduce
                if viol:
                    m = re.search(r"replay=(\S+)", viol[0])
                    if m and os.path.exists(m.group(1)):
                        rc3, o3 = sh("cd %s && VERIF_REPO=%s ./check %s --replay %s" % (VD, wt, p, m.group(1)))
                        entry["replay_exit"] = rc3
                        rc4, o4 = sh("cd %s && ./check %s --replay %s" % (VD, p, m.group(1)))
                        entry["replay_exit_on_unchanged_tree"] = rc4
                        try:
                            rj = json.load(open(m.group(1)))
                            entry["oracle"] = rj.get("violation", {}).get("oracle")
                            entry["replay_size_bytes"] = os.path.getsize(m.group(1))
                        except Exception:
                            pass
                if rc2 not in (0, 1):
                    entry["output_tail"] = o2.strip()[-800:]
                res["checks"][p] = entry
                shutil.rmtree(evd, ignore_errors=True); shutil.rmtree(rpd, ignore_errors=True)
    finally:
        sh("git -C /repo worktree remove --force %s" % wt)
        shutil.rmtree(wt, ignore_errors=True)
    ok_mut = res.get("patch_applies") and res.get("demo_exit_unchanged") == 0 and res.get("demo_exit_patched") == 1 and \
        (skip_suite or (res.get("suite_passed") == 386 and res.get("suite_failed") == 0))
    res["valid_seeded_change"] = bool(ok_mut)
    res["caught_by"] = [p for p, e in res.get("checks", {}).items() if e["exit"] == 1 and e["violation_lines"]]
    dst = "/verif/seeded/%s" % name
    if ok_mut or "--keep" in args:
        os.makedirs(dst, exist_ok=True)
        for f in ("patch.diff", "demo.py", "notes.md"):
            if os.path.exists(os.path.join(src, f)) and os.path.realpath(src) != os.path.realpath(dst):
                shutil.copy(os.path.join(src, f), os.path.join(dst, f))
        old = {}
        mp = os.path.join(dst, "meta.json")
        if os.path.exists(mp):
            old = json.load(open(mp))
        for k in ("needs", "breaks"):
            if k in old:
                res[k] = old[k]
        if skip_suite:
            for k in ("suite_passed", "suite_failed", "suite_tail"):
                if k in old:
                    res[k] = old[k]
            res["valid_seeded_change"] = bool(res.get("patch_applies") and res.get("demo_exit_unchanged") == 0 and
                                              res.get("demo_exit_patched") == 1 and res.get("suite_passed") == 386 and not res.get("suite_failed"))
        res["breaks"] = prop
        np_ = os.path.join(src, "notes.md")
        if os.path.exists(np_):
            res["needs_to_manifest_and_agent_log"] = open(np_).read()
        res["what_was_run"] = [
            "git worktree add <scratch> HEAD; demo.py on the unchanged tree (expect exit 0)",
            "git apply patch.diff; pytest -q --deselect tests/test_integration.py::TestIntegration (expect 386 passed)",
            "demo.py with the patch (expect exit 1)",
            "VERIF_REPO=<scratch> ./check <ID> --tier %s (expect VIOLATION, exit 1); replay of the written replay file in a fresh interpreter against the patched tree (expect exit 1) and against the unchanged tree (expect exit 0)" % tier,
            "git worktree remove --force <scratch>"]
        hist = old.get("history", [])
        hist.append({"at": res["validated_at"], "caught_by": res["caught_by"], "tier": tier, "props": props})
        res["history"] = hist
        json.dump(res, open(mp, "w"), indent=1)
    print(json.dumps({k: res.get(k) for k in ("name", "valid_seeded_change", "demo_exit_unchanged", "demo_exit_patched", "suite_passed", "suite_failed", "caught_by")}))
    for p, e in res.get("checks", {}).items():
        print("  ", p, "exit", e["exit"], e.get("oracle"), e["violation_lines"][:1], e.get("output_tail", "")[:300])
    return 0

if __name__ == "__main__":
    sys.exit(main())
