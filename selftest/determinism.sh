#!/bin/bash
# selftest/determinism.sh [N] [IDs...]
# For every property: event-log digests of run indices 0..N-1 must be identical across
#   (a) two executions, (b) a fresh interpreter under another PYTHONHASHSEED, (c) 1 worker vs 16 workers.
# C10's own subject is hash-seed independence of the SUT; a mismatch there is reported by C10 itself as a violation,
# here it would show up as a digest difference as well (both mean "look at it").
cd "$(dirname "$0")/.."
N="${1:-400}"; shift
IDS=("$@"); [ ${#IDS[@]} -eq 0 ] && IDS=(C01 C02 C03 C04 C05 C06 C07 C08 C09 C10 C11 C12 C13 C14 C15 C16 C17 C18 C19 C20)
T=$(mktemp -d /tmp/acn-det.XXXXXX); trap 'rm -rf "$T"' EXIT
bad=0
for id in "${IDS[@]}"; do
  n=$N; case $id in C16|C17) n=$((N/8+1));; esac
  PYTHONHASHSEED=0     ./check $id --digests $n --workers 16 > $T/a.txt 2>$T/a.err || { echo "$id run a failed"; cat $T/a.err | tail -5; bad=1; continue; }
  PYTHONHASHSEED=0     ./check $id --digests $n --workers 16 > $T/b.txt 2>/dev/null
  PYTHONHASHSEED=98765 ./check $id --digests $n --workers 16 > $T/c.txt 2>/dev/null
  PYTHONHASHSEED=4242  ./check $id --digests $n --workers 1  > $T/d.txt 2>/dev/null
  ok=1
  for f in b c d; do cmp -s $T/a.txt $T/$f.txt || { ok=0; echo "$id: digest mismatch a vs $f:"; diff $T/a.txt $T/$f.txt | head -6; }; done
  lines=$(wc -l < $T/a.txt)
  if [ $ok = 1 ] && [ "$lines" = "$n" ]; then echo "$id deterministic over $n runs x 4 executions (hash seeds 0,0,98765,4242; workers 16,16,16,1)"; else bad=1; echo "$id NOT deterministic (lines=$lines)"; fi
done
exit $bad
