#!/venv/bin/python
"""selftest/mkmut.py NAME FILE OLD NEW  -> selftest/mutants/NAME.diff (a one-site source mutation of /repo HEAD)."""
import subprocess, sys, os, tempfile, shutil
name, path, old, new = sys.argv[1:5]
old = old.encode().decode("unicode_escape"); new = new.encode().decode("unicode_escape")
wt = tempfile.mkdtemp(prefix="acn-mk.")
os.rmdir(wt)
subprocess.check_call(["git", "-C", "/repo", "worktree", "add", "-q", "--detach", wt, "HEAD"])
try:
    p = os.path.join(wt, path)
    s = open(p).read()
    n = s.count(old)
    if n != 1:
        sys.exit("pattern occurs %d times in %s" % (n, path))
    open(p, "w").write(s.replace(old, new))
    d = subprocess.check_output(["git", "-C", wt, "diff"], text=True)
    open("/verif/selftest/mutants/%s.diff" % name, "w").write(d)
    print("wrote", name, len(d.splitlines()), "lines")
finally:
    subprocess.call(["git", "-C", "/repo", "worktree", "remove", "--force", wt])
    shutil.rmtree(wt, ignore_errors=True)
