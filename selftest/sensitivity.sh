#!/bin/bash
# selftest/sensitivity.sh : every hand-written mutant (selftest/mutants/Cxx-*.diff) and every revert of a "fix:" commit
# (selftest/mutants/revert-<sha>.diff, property taken from known_findings.json) must make its property's QUICK check report
# a VIOLATION (exit 1). Runs in scratch worktrees via selftest/mutant.sh. Log: selftest/sensitivity.log
cd "$(dirname "$0")/.."
LOG=selftest/sensitivity.log; : > $LOG
fail=0
for f in selftest/mutants/*.diff; do
  b=$(basename $f .diff)
  case $b in
    revert-*) sha=${b#revert-}; id=$(/venv/bin/python -c "import json;print(next(x['property'] for x in json.load(open('known_findings.json'))['findings'] if x['commit']=='$sha'))");;
    *) id=${b%%-*};;
  esac
  out=$(VERIF_REPLAY_DIR=/tmp/acn-sens-rp.$$ ./selftest/mutant.sh $f $id --tier quick 2>&1); rc=$?
  v=$(echo "$out" | grep -m1 '^VIOLATION' | sed 's/replay=[^ ]* //' | cut -c1-160)
  echo "$b $id exit=$rc $v" | tee -a $LOG
  [ $rc -ne 1 ] && fail=1
done
rm -rf /tmp/acn-sens-rp.$$
echo "sensitivity: fail=$fail" | tee -a $LOG
exit $fail
