#!/bin/bash
# selftest/mutant.sh <patch.diff> <ID> [extra check args...]
# Applies a patch to a scratch worktree of /repo's HEAD (outside /repo and /verif), runs the property's check against it
# via VERIF_REPO, and removes the worktree. Evidence/replay files of this run go to a scratch dir, not /verif/evidence.
set -u
PATCH="$(realpath "$1")"; ID="$2"; shift 2
WT="/tmp/acn-mut.$$"
git -C /repo worktree add -q --detach "$WT" HEAD || exit 3
trap 'git -C /repo worktree remove --force "$WT" >/dev/null 2>&1; rm -rf "$WT"' EXIT
if ! git -C "$WT" apply "$PATCH" 2>/dev/null; then
  if ! git -C "$WT" apply --3way "$PATCH" >/dev/null 2>&1; then echo "PATCH-DOES-NOT-APPLY $PATCH"; exit 4; fi
fi
cd /verif
VERIF_REPO="$WT" VERIF_EVIDENCE_DIR="/tmp/acn-mut-ev.$$" ./check "$ID" "$@"
rc=$?
rm -rf "/tmp/acn-mut-ev.$$"
exit $rc
