#!/venv/bin/python
"""Rewrite the block between <!-- SEEDED-TABLE-BEGIN --> and <!-- SEEDED-TABLE-END --> in DESIGN.md from seeded/*/meta.json."""
import glob, json, re
rows = []
for f in sorted(glob.glob("/verif/seeded/*/meta.json")):
    m = json.load(open(f))
    p = m["property"]
    c = m["checks"].get(p, {})
    notes = m.get("needs_to_manifest_and_agent_log", "")
    title = ""
    for line in notes.splitlines():
        line = line.strip().lstrip("# ").strip()
        if line:
            title = line
            break
    title = re.sub(r"^C\d\d-[a-z]\s*[—:-]*\s*", "", title)[:110].replace("|", "/")
    rows.append("| %s | %s | %s | `%s` | %s |" % (m["name"], title, ", ".join(m["caught_by"]) or "MISSED", c.get("oracle"), "yes" if c.get("replay_exit") == 1 and c.get("replay_exit_on_unchanged_tree") == 0 else "no"))
tbl = "\n".join(["| seeded change | what it is (sub-agent's own title) | caught by (quick tier) | oracle that fired | replay reproduces / clean on unchanged tree |",
                 "|---|---|---|---|---|"] + rows)
s = open("/verif/DESIGN.md").read()
s = re.sub(r"<!-- SEEDED-TABLE-BEGIN -->.*<!-- SEEDED-TABLE-END -->", "<!-- SEEDED-TABLE-BEGIN -->\n" + tbl + "\n<!-- SEEDED-TABLE-END -->", s, flags=re.S)
open("/verif/DESIGN.md", "w").write(s)
print(len(rows), "rows")
