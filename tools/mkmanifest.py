#!/venv/bin/python
"""Regenerate /verif/MANIFEST.json from the property modules that exist (dsim/props/cNN.py)."""
import importlib, json, os, sys
sys.path.insert(0, "/verif")
os.environ.setdefault("PYTHONWARNINGS", "ignore")
ALL = ["C%02d" % i for i in range(1, 21)]
checks, na = [], []
for pid in ALL:
    path = "/verif/dsim/props/%s.py" % pid.lower()
    if not os.path.exists(path):
        na.append({"property_id": pid, "reason": "check not built yet (work in progress; see DESIGN.md section 5 for the plan)"})
        continue
    src = open(path).read()
    ns = {}
    # read metadata without importing the SUT
    import ast
    tree = ast.parse(src)
    for node in tree.body:
        if isinstance(node, ast.Assign) and len(node.targets) == 1 and isinstance(node.targets[0], ast.Name) \
                and node.targets[0].id in ("LEVEL_TEXT", "LEVEL_NOTE", "TECHNIQUE", "DESIGN_REF", "NOT_APPLICABLE"):
            ns[node.targets[0].id] = ast.literal_eval(node.value)
    if ns.get("NOT_APPLICABLE"):
        na.append({"property_id": pid, "reason": ns["NOT_APPLICABLE"]})
        continue
    checks.append({
        "property_id": pid,
        "quick_cmd": "./check %s --tier quick" % pid,
        "thorough_cmd": "./check %s --tier thorough" % pid,
        "evidence_file": "/verif/evidence/%s.json" % pid,
        "replay_cmd_template": "./check %s --replay {path}" % pid,
        "engine": "dsim",
        "level_claimed": {"category": "exploration",
                          "text": ns.get("LEVEL_TEXT", "Seeded search over simulated runs; held on every run explored (sampling, not proof)."),
                          "design_ref": ns.get("DESIGN_REF", "DESIGN.md section 5, %s" % pid)},
        "level_note": ns.get("LEVEL_NOTE", "Trusted: the harness (generator, scheduler party, reference models, oracles) in /verif/dsim; numpy/pandas; tolerances per DESIGN.md 2.9."),
        "technique": ns.get("TECHNIQUE", "deterministic simulation with fault injection (seeded search over simulated runs)"),
    })
m = {
    "version": 1,
    "setup_cmd": "/venv/bin/python -c 'import hypothesis, jsonschema' 2>/dev/null || /venv/bin/pip install --no-index --find-links /opt/veriftools/wheels hypothesis jsonschema; /venv/bin/python -c 'import numpy, pandas, acnportal' && chmod +x /verif/check",
    "hooks": {"guard": "ACNPORTAL_VERIF", "enable": "no source hooks: checks import /repo's working tree directly (VERIF_REPO overrides) and patch module-level seams at run time",
              "baseline_off_cmd": "cd /repo && /venv/bin/python -m pytest -ra -q -p no:cacheprovider --timeout=900 --continue-on-collection-errors",
              "source_commits": [], "add_only": True},
    "engines": [{"name": "dsim", "path": "/verif/dsim", "serves_properties": [c["property_id"] for c in checks],
                 "kind_free_text": "deterministic simulation with fault injection: seeded world generator, scheduler party with fault plan, "
                                   "noise/choice/HTTP/TZ seams, end-of-period tap, reference models, structural shrinker, replay files; faults: scheduler crash + "
                                   "resume (memory / JSON string, buffer, file, open handle, disk full during the save, old checkpoint layout), scribbling / "
                                   "malformed / invalid schedules, operator interventions between and inside periods (limits changed, withdrawn, re-wired, "
                                   "cable pulled, monitoring script editing what it was handed), HTTP page faults, host time zone, hash seed, python -O, "
                                   "object re-use, deep copies, caller threads under a seeded interleaver"}],
    "checks": checks,
    "not_applicable": na,
    "notes": "All checks: ./check <ID> --tier quick|thorough; exit 0 held / 1 VIOLATION / 2 harness error (never 0 on timeout). "
             "VERIF_SEED selects the seed; VERIF_BUDGET_S overrides the wall budget. Fix commits in /repo are listed in known_findings.json.",
}
json.dump(m, open("/verif/MANIFEST.json", "w"), indent=1)
try:
    import jsonschema
    jsonschema.validate(m, json.load(open("/root/.vp/MANIFEST.schema.json")))
    print("MANIFEST valid: %d checks, %d not_applicable" % (len(checks), len(na)))
except ImportError:
    print("jsonschema missing; not validated")
